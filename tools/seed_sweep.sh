#!/bin/sh
# tools/seed_sweep.sh [ids...]  - apply every recorded seeded change to a scratch worktree and run the quick tier of its own property's
# check against it; prints one line per seed (rc=1 with a VIOLATION line means caught).  Nothing is written to /repo.
HERE=$(cd "$(dirname "$0")/.." && pwd)
cd "$HERE" || exit 2
WT=$(mktemp -d /tmp/wcverif-sweep-XXXXXX)
rmdir "$WT"
for d in seeded/*/; do
  id=$(basename "$d")
  [ -f "$d/patch.diff" ] || continue
  if [ $# -gt 0 ]; then case " $* " in *" $id "*) ;; *) continue;; esac; fi
  prop=$(echo "$id" | cut -c1-3)
  git -C "${VERIF_REPO_SRC:-/repo}" worktree add -q "$WT" HEAD || exit 2
  if git -C "$WT" apply "$HERE/$d/patch.diff" 2>/dev/null || git -C "$WT" apply --3way "$HERE/$d/patch.diff" >/dev/null 2>&1; then
    out=$(VERIF_REPO="$WT" VERIF_EVIDENCE_DIR="$WT.ev" timeout 1800 bin/vcheck "$prop" --tier quick 2>&1)
    rc=$?
    v=$(echo "$out" | grep -c '^VIOLATION')
    echo "$id $prop rc=$rc violations=$v"
  else
    echo "$id $prop PATCH-DOES-NOT-APPLY"
  fi
  git -C "${VERIF_REPO_SRC:-/repo}" worktree remove --force "$WT"
  rm -rf "$WT.ev"
done
