HOOK_COMMITS = []
NOT_APPLICABLE = {}
CHECKS = {
 'C10': {
  'technique': 'bounded-exhaustive string/token enumeration + Hypothesis token-soup and mutation strategies + atheris coverage-guided fuzzing; oracle = documented-exception-types-only and every translate() regex compiles',
  'text': 'Generated-input search for crashes: every string over a 13-character metacharacter alphabet up to length 4 (6 thorough) and every sequence over 9-16 glob tokens up to length 6 (7 thorough) is compiled, translated and matched under 2-3 flag configurations in fnmatch and glob mode; Hypothesis drives str/bytes soups and mutated valid patterns with random flag subsets through every public entry point (filter, compile, is_magic, glob on a small tree, pathlib, WcMatch); atheris fuzzes raw bytes with the oracle in the target. Exhaustive within the stated bounds, sampling beyond; absence of crashes beyond the bounds is not established.',
  'design_ref': 'DESIGN.md section 3, C10',
  'note': 'Trusts: Python re as the judge of regex validity; the allowed-exception table derived from the property text (PatternLimitException only with BRACE/SPLIT, SyntaxError/LookupError only with RAWCHARS, TypeError/ValueError only for mixed types or pathlib absolute/foreign-platform use). Degraded meaning of malformed constructs is not modelled (only: no crash, regex compiles).',
 },
}
