HOOK_COMMITS = []
NOT_APPLICABLE = {}
CHECKS = {
 'C10': {
  'technique': 'bounded-exhaustive string/token enumeration + Hypothesis token-soup and mutation strategies + atheris coverage-guided fuzzing; oracle = documented-exception-types-only and every translate() regex compiles',
  'text': 'Generated-input search for crashes: every string over a 13-character metacharacter alphabet up to length 4 (6 thorough) and every sequence over 9-16 glob tokens up to length 6 (7 thorough) is compiled, translated and matched under 2-3 flag configurations in fnmatch and glob mode; Hypothesis drives str/bytes soups and mutated valid patterns with random flag subsets through every public entry point (filter, compile, is_magic, glob on a small tree, pathlib, WcMatch); atheris fuzzes raw bytes with the oracle in the target. Exhaustive within the stated bounds, sampling beyond; absence of crashes beyond the bounds is not established.',
  'design_ref': 'DESIGN.md section 3, C10',
  'note': 'Trusts: Python re as the judge of regex validity; the allowed-exception table derived from the property text (PatternLimitException only with BRACE/SPLIT, SyntaxError/LookupError only with RAWCHARS, TypeError/ValueError only for mixed types or pathlib absolute/foreign-platform use). Degraded meaning of malformed constructs is not modelled (only: no crash, regex compiles).',
 },
}
CHECKS.update({
 'C01': {
  'technique': 'bounded-exhaustive pattern ASTs x all names up to length N over minterm representatives + Hypothesis ASTs with model-guided names; oracle = independent reference matcher (three-valued)',
  'text': 'Every pattern AST within token budget 3 (4 thorough) is rendered, run through fnmatch/filter/compile().match and compared with an independent AST-level reference matcher on every name up to length 4 (5 thorough) over one representative per minterm of the pattern (hence on all names up to that length), under DOTMATCH on/off and without EXTMATCH; Hypothesis adds deeper ASTs (budget 8-12, ranges, 14 POSIX classes, IGNORECASE/CASE/FORCEUNIX) with model-guided accepted names up to length 24 and their edit-1 neighbours; all code points 0-255 plus 400 others against every POSIX class. Bounded enumeration plus sampling, not language equivalence.',
  'design_ref': 'DESIGN.md 2.1-2.3, section 3 C01',
  'note': 'Trusts the reference matcher (wcverif/ref.py) as the documented meaning; `!(...)` outside the exact fragment of the statement and non-ASCII case folding are EITHER; names beginning with "." without DOTMATCH belong to C03. Known findings K1, K2 are attributed by class predicate only.',
 },
 'C02': {
  'technique': 'bounded-exhaustive 1-3 segment path patterns x all paths up to length 5 + Hypothesis path patterns with assembled paths; oracle = reference segment alignment (three-valued) + model-free text-level segment-count invariant',
  'text': 'Every 1-3 segment path pattern within total token budget 3 (4 thorough), with globstar segments in any position and absolute / trailing / duplicate separator variants, is run through globmatch/globfilter/compile().match under configurations of GLOBSTAR, GLOBSTARLONG, MATCHBASE, DOTGLOB, NODOTDIR, NODIR and compared with the reference alignment on every path up to length 5 over the minterm representatives plus "/"; Hypothesis adds patterns of up to 4 segments with paths assembled from model-accepted segment names; a text-level invariant (accepted paths have exactly as many segments as the pattern has pieces) runs on raw strings.',
  'design_ref': 'DESIGN.md 2.2, section 3 C02',
  'note': 'Trusts ref.path_verdict; undecided zones (nullable segment vs no segment, separator-only paths, MATCHBASE with a leading globstar) are EITHER and counted. Paths with hidden or ./.. segments belong to C03.',
 },
 'C03': {
  'technique': 'same enumerations as C01/C02 restricted to hidden names and ./.. segments, judged by a strict/lenient pair of reference models; metamorphic exclusion clause; glob()/WcMatch results on a dot-rich tree judged by the reference',
  'text': 'For hidden names (DOTMATCH off) and ./.. segments the lenient model (the leading dot can only be consumed by a written ".") gives MUSTNOT and the strict model (and nothing wildcard-like stands before it) gives MUST; enumerated in fnmatch mode, glob mode (incl. MATCHBASE, NODOTDIR) and through pathlib PurePath.match; exclusion patterns are checked to behave as with DOTMATCH forced in all four delivery forms; glob/iglob/Path.glob/WcMatch results on a tree full of dot entries may not contain a path the lenient model forbids.',
  'design_ref': 'DESIGN.md 2.2, section 3 C03',
  'note': 'The statement is two one-sided claims; the gap between them is EITHER. Known findings K1-K5, K8, K20 are attributed by narrow class predicates (wcverif/findings.py); Windows hidden attributes are unreachable on Linux.',
 },
})
