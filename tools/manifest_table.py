HOOK_COMMITS = []
NOT_APPLICABLE = {}
CHECKS = {
 'C10': {
  'technique': 'bounded-exhaustive string/token enumeration + Hypothesis token-soup and mutation strategies + atheris coverage-guided fuzzing; oracle = documented-exception-types-only and every translate() regex compiles',
  'text': 'Generated-input search for crashes: every string over a 13-character metacharacter alphabet up to length 4 (6 thorough) and every sequence over 9-16 glob tokens up to length 6 (7 thorough) is compiled, translated and matched under 2-3 flag configurations in fnmatch and glob mode; Hypothesis drives str/bytes soups and mutated valid patterns with random flag subsets through every public entry point (filter, compile, is_magic, glob on a small tree, pathlib, WcMatch); atheris fuzzes raw bytes with the oracle in the target. Exhaustive within the stated bounds, sampling beyond; absence of crashes beyond the bounds is not established.',
  'design_ref': 'DESIGN.md section 3, C10',
  'note': 'Trusts: Python re as the judge of regex validity; the allowed-exception table derived from the property text (PatternLimitException only with BRACE/SPLIT, SyntaxError/LookupError only with RAWCHARS, TypeError/ValueError only for mixed types or pathlib absolute/foreign-platform use). Degraded meaning of malformed constructs is not modelled (only: no crash, regex compiles).',
 },
}
CHECKS.update({
 'C01': {
  'technique': 'bounded-exhaustive pattern ASTs x all names up to length N over minterm representatives + Hypothesis ASTs with model-guided names; oracle = independent reference matcher (three-valued)',
  'text': 'Every pattern AST within token budget 3 (4 thorough) is rendered, run through fnmatch/filter/compile().match and compared with an independent AST-level reference matcher on every name up to length 4 (5 thorough) over one representative per minterm of the pattern (hence on all names up to that length), under DOTMATCH on/off and without EXTMATCH; Hypothesis adds deeper ASTs (budget 8-12, ranges, 14 POSIX classes, IGNORECASE/CASE/FORCEUNIX) with model-guided accepted names up to length 24 and their edit-1 neighbours; all code points 0-255 plus 400 others against every POSIX class. Bounded enumeration plus sampling, not language equivalence.',
  'design_ref': 'DESIGN.md 2.1-2.3, section 3 C01',
  'note': 'Trusts the reference matcher (wcverif/ref.py) as the documented meaning; `!(...)` outside the exact fragment of the statement and non-ASCII case folding are EITHER; names beginning with "." without DOTMATCH belong to C03. Known findings K1, K2 are attributed by class predicate only.',
 },
 'C02': {
  'technique': 'bounded-exhaustive 1-3 segment path patterns x all paths up to length 5 + Hypothesis path patterns with assembled paths; oracle = reference segment alignment (three-valued) + model-free text-level segment-count invariant',
  'text': 'Every 1-3 segment path pattern within total token budget 3 (4 thorough), with globstar segments in any position and absolute / trailing / duplicate separator variants, is run through globmatch/globfilter/compile().match under configurations of GLOBSTAR, GLOBSTARLONG, MATCHBASE, DOTGLOB, NODOTDIR, NODIR and compared with the reference alignment on every path up to length 5 over the minterm representatives plus "/"; Hypothesis adds patterns of up to 4 segments with paths assembled from model-accepted segment names; a text-level invariant (accepted paths have exactly as many segments as the pattern has pieces) runs on raw strings.',
  'design_ref': 'DESIGN.md 2.2, section 3 C02',
  'note': 'Trusts ref.path_verdict; undecided zones (nullable segment vs no segment, separator-only paths, MATCHBASE with a leading globstar) are EITHER and counted. Paths with hidden or ./.. segments belong to C03.',
 },
 'C03': {
  'technique': 'same enumerations as C01/C02 restricted to hidden names and ./.. segments, judged by a strict/lenient pair of reference models; metamorphic exclusion clause; glob()/WcMatch results on a dot-rich tree judged by the reference',
  'text': 'For hidden names (DOTMATCH off) and ./.. segments the lenient model (the leading dot can only be consumed by a written ".") gives MUSTNOT and the strict model (and nothing wildcard-like stands before it) gives MUST; enumerated in fnmatch mode, glob mode (incl. MATCHBASE, NODOTDIR) and through pathlib PurePath.match; exclusion patterns are checked to behave as with DOTMATCH forced in all four delivery forms; glob/iglob/Path.glob/WcMatch results on a tree full of dot entries may not contain a path the lenient model forbids.',
  'design_ref': 'DESIGN.md 2.2, section 3 C03',
  'note': 'The statement is two one-sided claims; the gap between them is EITHER. Known findings K1-K5, K8, K20 are attributed by narrow class predicates (wcverif/findings.py); Windows hidden attributes are unreachable on Linux.',
 },
})
CHECKS.update({
 'C07': {
  'technique': 'Hypothesis-generated pattern lists / exclusions / SPLIT texts / BRACE templates with expansion lists known by construction; metamorphic oracle built from wcmatch single-pattern answers',
  'text': 'The combined call (lists, exclude=, inline ! / - negation, NEGATEALL, NODIR, SPLIT, BRACE) is compared on every name up to length 3 over the minterm representatives with the boolean combination of single-pattern calls that the statement prescribes (exclusions with DOTMATCH forced), under permutation and duplication, through fnmatch/filter/compile and globmatch/globfilter/compile; translate() list lengths are checked; a table of fixed spellings (`!(`, escaped markers, `|` in brackets/groups, `{x}`) pins the special cases.',
  'design_ref': 'DESIGN.md section 3 C07',
  'note': 'Single-pattern answers of wcmatch are trusted here (they are judged by C01-C03); bracex is a black box beyond sets, nesting and ranges.',
 },
 'C08': {
  'technique': 'differential between translate() regexes (re.fullmatch) and the matcher on enumerated + Hypothesis patterns and names; group count / captured text checked against the AST and reference; atheris target shares the oracle',
  'text': 'For every enumerated fnmatch AST (budget 3/4) and path pattern (budget 3/4), and for Hypothesis pattern lists with exclusions and random flags, each regex returned by translate() must compile and `any(inc) and not any(exc)` must equal the compiled matcher on every name up to length 3-4 over the representatives; the number of capturing groups must equal the number of extended groups in order of opening, and text captured outside `!(...)` must be in the reference language of its group.',
  'design_ref': 'DESIGN.md section 3 C08',
  'note': 'REALPATH excluded; group checks only for generated ASTs (raw fuzz strings have no AST); K1 (`**(`) attributed by class.',
 },
 'C09': {
  'technique': 'exhaustive short strings x flag subsets (all 4096 for the shortest) + Hypothesis strings incl. drive/UNC shapes; oracle = self-match plus edit-distance-1 neighbourhood judged by an independent normaliser; converse via is_magic',
  'text': 'escape(s) must match s and reject every edit-distance-1 neighbour and every prefix/suffix extension that is not the same name under the mode\'s case folding, separator equivalence and duplicate/trailing separators; run for fnmatch.escape and glob.escape (unix True/False) under all 4096 subsets of 12 feature flags for one-character strings (two characters thorough) and sampled subsets for all strings up to length 3 over a 21-character alphabet, FORCEUNIX and FORCEWIN; non-magic patterns (is_magic False) are tested the same way as their own pattern.',
  'design_ref': 'DESIGN.md section 3 C09',
  'note': '"Matches nothing else" is a neighbourhood test, not a singleton proof. In Windows glob mode duplicate separators inside a UNC prefix are not judged.',
 },
 'C11': {
  'technique': 'deterministic boundary grid over limits x template shapes x 16 entry points (+ Hypothesis draws); three-valued oracle from expansion counts known by construction; bracex.iexpand wrapped to count work',
  'text': 'Templates (brace ranges, products, duplicates, `|` splits) with known total T and de-duplicated U expansion counts are placed at L-1, L, L+1 and 1000*L for L in {1,2,3,5,32,33,1000,1001}, split over 1-3 inclusions and 0-2 exclusions (exclude= and inline), plus limit=0, `{1..100000000}` and the defaults; every one of 16 entry points must raise PatternLimitException when U > L, must not when T <= L, and may pull at most L + #patterns items from bracex; signature defaults must be 1000.',
  'design_ref': 'DESIGN.md section 3 C11',
  'note': 'The grid is the quantifier of the property; negative limits are not generated. For WcMatch (one `|`-joined string, braces expanded before splitting) only single-brace-piece cases are decided.',
 },
 'C17': {
  'technique': 'metamorphic closure relations (case change, separator swap, flag cancellation, FORCEWIN vs FORCEUNIX|IGNORECASE) on enumerated and Hypothesis patterns with wcmatch on both sides; drive/UNC table',
  'text': 'All 16 subsets of {CASE, IGNORECASE, FORCEWIN, FORCEUNIX} on every fnmatch AST of budget 3 over a mixed-case alphabet and on 1-2 segment path patterns, str and bytes: insensitive mode is closed under ASCII case change of names and of pattern literals, sensitive mode accepts literals only in their exact spelling, CASE beats IGNORECASE, FORCEWIN|FORCEUNIX cancel, `/` and `\\` are interchangeable in names and `\\\\` is a separator in patterns under FORCEWIN, FORCEWIN equals FORCEUNIX|IGNORECASE after separator normalisation for backslash-free patterns, drive and UNC prefixes are literal case-insensitive prefixes.',
  'design_ref': 'DESIGN.md section 3 C17',
  'note': 'ASCII case only; Windows-native branches are reached only through FORCEWIN; K10 (wildcards matching a drive) attributed by class. In fnmatch mode brackets that contain one separator character but not the other are not judged for the swap relation.',
 },
 'C18': {
  'technique': 'twin execution (str vs latin-1 encoded bytes) of enumerated and Hypothesis cases; high-byte sweep judged by the reference POSIX table; mixed-type calls must raise TypeError',
  'text': 'Every enumerated fnmatch AST and path pattern and Hypothesis pattern lists with exclusions and random flags are run as str and as bytes: filter results, translate() output (textually when ASCII), escape(); bytes 0x80-0xFF against all 28 POSIX forms and further brackets, `?`/`*` per byte; glob/iglob/WcMatch with str vs bytes roots on two trees must return the same sequence; 16 mixed-type calls must raise TypeError.',
  'design_ref': 'DESIGN.md section 3 C18',
  'note': 'File names on disk are ASCII; translate text equality is only demanded when the str regex is ASCII.',
 },
 'C20': {
  'technique': 'exhaustive strings over an escape alphabet + Hypothesis escape soups; oracle = independent left-to-right decoder, relation RAWCHARS(p) == plain(decode(p)) via translate text then behaviour',
  'text': 'Every string up to length 5 over 13 symbols (length 6 over 10, thorough) containing a backslash, as str and bytes, fnmatch and glob, FORCEWIN on/off: the RAWCHARS call must equal the call on the independently decoded text (regex text, else matching on a derived name pool), incomplete escapes must raise SyntaxError, unknown names a lookup error; without RAWCHARS the escaped spelling matches its literal text and not the decoded character; WcMatch file patterns are decoded the same way.',
  'design_ref': 'DESIGN.md section 3 C20',
  'note': 'Which exception an out-of-range \\U or a bytes octal above 0o377 produces is not judged here (C10 owns "documented exception").',
 },
})
CHECKS.update({
 'C04': {
  'technique': 'Hypothesis trees x patterns x flags; differential oracle inside wcmatch: glob() result set vs globmatch(REALPATH) over all tree entries; side clauses checked on generated candidates',
  'text': 'On catalogue and generated trees (symlinks to files/directories/ancestors/nowhere, hidden entries) with 1-2 patterns, optional exclusions (exclude= / inline) and flag subsets, the set glob() returns must equal the set of candidates (every entry, also through symlinked directories and with trailing separators, plus glob\'s own output) that globmatch(REALPATH) accepts, with the root given as root_dir, cwd or dir_fd; non-existent paths and absolute candidates never match; directory-demanding patterns match un-slashed candidates iff they are directories.',
  'design_ref': 'DESIGN.md section 3 C04',
  'note': 'Undecided zones (counted as either): a segment pattern that can match the empty string; a `**` adjacent to a `***` under GLOBSTARLONG. Known findings K5, K16, K17 attributed by class; trees are made follow-safe when the flags follow links.',
 },
 'C05': {
  'technique': 'Hypothesis trees x patterns x flags; oracle 1 = independent reference walker over real directory listings with three-valued segment verdicts (must <= glob <= must+may); oracle 2 = Bash 5.2 pathname expansion on the shared fragment',
  'text': 'glob()/iglob() results on catalogue and generated trees are compared with a reference walker that interprets the pattern AST segment by segment against real listings (literal segments followed as written, hidden and ./.. rules, `**`/`***` link rules, MATCHBASE prefix, MARK/NODIR formatting) and, for negation-free patterns with a magic segment, with what `bash -O nullglob -O globstar -O extglob [-O dotglob]` expands in the same directory.',
  'design_ref': 'DESIGN.md 2.5, 2.6, section 3 C05',
  'note': 'Trusts the reference walker and Bash 5.2.15; language-level findings K2, K3, K4, K8, K20 attributed by class; case-insensitive file systems and Windows drives cannot be exercised.',
 },
 'C06': {
  'technique': 'Hypothesis symlink-heavy trees (incl. cycles) x globstar patterns; invariants over the os.scandir history recorded by the harness, a listing bound for termination, and the same rule applied to globmatch(REALPATH)',
  'text': 'Every directory glob() lists is aligned with the pattern: it is a violation only if every alignment puts a symlink component on a `**` that does not follow links; on trees with cycles (generated only when links are not followed) the number of listings must stay under a bound proportional to tree size x segments (non-termination shows as hitting the ceiling); symlinks met by a final `**` must be results; globmatch(REALPATH) must reject candidates that can only be aligned through such a symlink; WcMatch without SYMLINKS never lists below a symlinked directory, with SYMLINKS equals os.walk(followlinks=True).',
  'design_ref': 'DESIGN.md section 3 C06',
  'note': 'Termination under FOLLOW on cyclic trees is outside the property and not generated. K17 (MATCHBASE with an all-globstar pattern) attributed by class.',
 },
 'C12': {
  'technique': 'Hypothesis trees x patterns (relative/absolute) x flags; per-element validity predicate against os.lstat / isdir, and metamorphic equality across five ways of giving the root and iglob vs glob',
  'text': 'Each element of glob() must exist, be spelled relative/absolute like its pattern, carry a trailing separator only for directories and always under MARK or a directory-demanding pattern, and never be a directory under NODIR; list(iglob()) == glob(); the result set is the same for root_dir as str, bytes and PathLike, for dir_fd and for the working directory.',
  'design_ref': 'DESIGN.md section 3 C12',
  'note': 'Ground truth is the OS view of the generated tree.',
 },
 'C13': {
  'technique': 'Hypothesis trees x pattern lists x exclusions x flags; metamorphic oracle: union / concatenation of single-pattern glob() results filtered by the exclusion predicate',
  'text': 'glob(list) must be, as a set, the union of glob(p_i) minus paths matched by an exclusion (directory slash, DOTGLOB forced) with no spelling twice; under NOUNIQUE the concatenation in order; also for lists produced by BRACE and SPLIT, inline vs exclude= delivery, IGNORECASE/CASE on a case-sensitive file system with mixed-case names, and Path.glob (no file twice unless NOUNIQUE).',
  'design_ref': 'DESIGN.md section 3 C13',
  'note': 'Single-pattern results are trusted here (C05 judges them).',
 },
 'C14': {
  'technique': 'all 4096 flag subsets on a fixed tree x fixed pattern pairs + Hypothesis trees/patterns/flags; oracle = independent os.scandir walk with fnmatch/globmatch predicates',
  'text': 'WcMatch.match() and get_skipped() are compared, as multisets and counts, with an independent top-down walk that prunes directories by the exclude predicate, enters symlinked directories only with SYMLINKS, skips hidden entries without HIDDEN and decides files with fnmatch()/globmatch() under the documented flag translation (SPLIT, NEGATE, NEGATEALL, DOTMATCH forced; base name or root-relative path).',
  'design_ref': 'DESIGN.md section 3 C14',
  'note': 'Ties WcMatch to the matchers judged by C01-C03/C07; Windows-only hidden attributes unreachable.',
 },
 'C16': {
  'technique': 'Hypothesis trees x patterns x flags; metamorphic oracle against wcmatch.glob (Path.glob, globmatch, full_match), reference walker with a prepended globstar for rglob, match(REALPATH) <-> rglob correspondence; fixed-point table for ValueError and platform clauses',
  'text': 'Path.glob equals glob.glob joined onto the root; rglob is compared with the reference walker run on the AST with a leading globstar; PurePath.globmatch/full_match equal glob.globmatch with the class platform forced; q.match(p, REALPATH) holds iff Path(".").rglob(p) yields q for every entry q; no path twice unless NOUNIQUE; absolute patterns and foreign-platform REALPATH raise ValueError; FORCEWIN/FORCEUNIX from the user change nothing.',
  'design_ref': 'DESIGN.md section 3 C16',
  'note': 'Patterns with literal ./.. segments, SCANDOTDIR or a leading globstar are not judged for the match<->rglob clause; K3, K4, K8, K16 attributed by class (also through pathlib\'s normalisation of x/. to x).',
 },
})
CHECKS.update({
 'C15': {
  'technique': 'exhaustive enumeration of every abort point / raise point / between-results kill / harness-scheduled cross-thread kill per configuration + Hypothesis rule-based state machine over match/imatch/next/kill/reset; invariants over the recorded hook history',
  'text': 'For 35 (tree, pattern, flags) configurations the uninterrupted run is recorded with a hook-recording subclass and every abort point k = 0..n+1 is executed (kill from hook k, kill from another thread released exactly at hook k, kill between any two results), as is a raising validation/comparison hook at every position; a state machine interleaves match / imatch / next / kill / reset / drop. Checked: prefix-exactness, at most the item in progress finishes, stickiness until reset, full result after reset, identical re-runs, on_reset once per run, skipped counter, one-to-one routing to on_match/on_skip (+on_error), hook values passed through.',
  'design_ref': 'DESIGN.md section 3 C15',
  'note': 'kill() in the middle of a hook body or inside os.walk is not a distinct observable event; free-running threads are not used. Exceptions are only raised from the hooks the walker guards.',
 },
 'C19': {
  'technique': 'Hypothesis rule-based state machine over a cache-colliding call pool with a per-call baseline table as reference model; fresh-interpreter differential; 8-thread stress; matcher object algebra (==, hash, pickle, copy, immutability)',
  'text': 'Every call in every generated history (up to 80/400 steps, hot set for warm-cache hits, >256-pattern fillers for eviction, cache_clear, kept/pickled/copied matchers) must return exactly what the same call returns alone with the cache cleared; the hot set is re-evaluated in a fresh interpreter with another hash seed after a cache-filling history; the pool runs on 8 threads with a 1 microsecond switch interval; about 400 compiled matchers are checked pairwise for ==/hash vs behaviour, against rebuilt/pickled/copied twins, and for immutability.',
  'design_ref': 'DESIGN.md section 3 C19',
  'note': 'The threaded part is a stress run (schedule not owned by the harness). Cache hits on colliding keys and evictions are measured through cache_info() and reported.',
 },
})

# streams added while strengthening against seeded changes and soak runs (DESIGN.md 7.4)
EXTRA_TEXT = {
 'C02': 'A further shard checks that REALPATH on a fixed tree without symlinks never changes a verdict (globmatch(p, pat, flags|REALPATH) == globmatch(p[+/], pat, flags) for every entry), and a bracket-set shard covers POSIX classes / ranges that contain the separator.',
 'C04': 'Literal sweeps add every entry as an escaped literal (single, and in ordered pairs of variants for entries below symlinked directories); patterns with adjacent globstars of different kinds are judged on link-free paths only; a mutate stream changes one root between calls.',
 'C06': 'Clause (d) rotates root_dir / dir_fd / cwd and four exclusion forms (none, exclude= str, exclude= list, inline); a separate stream judges the implicit MATCHBASE prefix alone; a two-globstar stream mixes `**` and `***` around literal segments.',
 'C08': 'A deterministic grid runs every subset of nine list-related flags over 20 list shapes x 6 exclude= forms, and a raw-escape table runs escapes that decode to list / brace / group metacharacters under every subset of seven flags incl. RAWCHARS (str and bytes).',
 'C09': 'A shapes stream runs 36 drive / UNC / device-namespace spellings with metacharacters in every part under every subset of seven flags including CASE.',
 'C11': 'WcMatch is driven through its file pattern and through its folder-exclusion pattern (with and without RECURSIVE); the harness also records the bound handed to bracex and the number of items it yields.',
 'C12': 'The root is additionally spelled with a trailing separator, with `/.` and as <parent>/alias/.. (alias = symlink to a subdirectory of the root); a literal sweep names every entry incl. dangling links under root_dir / dir_fd / cwd.',
 'C14': 'Metamorphic clause: the same root spelled with a trailing separator, with `/.` and as `.` from inside yields the same files and the same skipped count.',
 'C16': 'A dots table runs 16 patterns that can reach both `d` and `d/.` under every subset of seven flags: no path twice unless NOUNIQUE, Path.glob == glob.glob; concrete Path.full_match / globmatch are compared with glob.globmatch on the path string.',
 'C17': 'Path patterns are also run with doubled and tripled separators (a run of separators means one, under either convention), with `[\\\\]` atoms, and through lists (relation R8).',
 'C18': 'The file-system stream spells patterns with runs of separators, trailing separators, a leading `.//` and BRACE empty alternatives; high escapes (`\\xe9`, `\\351`) are compared between bytes and latin-1 str.',
 'C19': 'A second state machine changes the world between calls (files, directories and symlinks appear and vanish, HOME moves; warm answer vs all caches cleared, and vs two fresh interpreters at the end of each history), 12 scripted transitions (symlink becomes directory, HOME starts to exist, ...) are compared with a fresh interpreter, caller-owned pattern lists are edited in place between calls, and REALPATH/FOLLOW matchers are compared with their pickled / copied twins on paths through symlinks.',
 'C20': 'For half of the texts the plain (non-RAWCHARS) call on the same text is made first in the same process.',
}
EXTRA_TEXT2 = {
 'C01': 'The posix stream includes code points that the regex engine\'s own classes count in (digits, letters and spaces of other scripts); a leading `!(` under EXTMATCH is answered the same with and without NEGATE / NEGATEALL (str and bytes, every entry point).',
 'C03': 'Root, trailing and doubled separators are also written escaped; a dot-spelling table runs `..*`-like patterns with every combination of escaped dots (same answers as the plain spelling, never a special directory under NODOTDIR, glob() returns none without SCANDOTDIR); the exclusion stream puts exclusions first, through SPLIT and alone under NEGATEALL.',
 'C04': 'In a fifth of the cases every separator is written escaped; the literal sweep also runs under MATCHBASE with escaped separators and under CASE|IGNORECASE.',
 'C05': 'Six ways of calling (glob, iglob, after an inert absolute pattern, after `*`, bytes with dir_fd, descriptor of the parent plus relative root_dir); a quarter of the cases use equivalent spellings (escaped dots, `^` negation, bare `]`).',
 'C06': 'globfilter / compile().filter must keep exactly the candidates through symlinked directories that globmatch accepts one by one.',
 'C07': 'A raw-split table compares SPLIT texts with the list of their pieces for bars inside bracket expressions (POSIX classes, bare `]`, `^`, escaped separators, Windows rules in path and name mode); the split stream draws such brackets as well.',
 'C09': 'The file-system shard has names that differ only in case and passes FORCEWIN / FORCEWIN|FORCEUNIX to the crawler; for strings that contain a separator MATCHBASE must change nothing.',
 'C12': 'The literal sweep also runs under IGNORECASE; the root is also given as a descriptor of the parent plus a relative root_dir.',
 'C13': 'Inline exclusions stand last or first in the list; NEGATEALL is among the configuration keys.',
 'C14': 'Anchoring clause: every piece written with a leading separator gives the result of the unanchored text without MATCHBASE; rerun clause: match() after match() and after a partly consumed imatch() returns the same files and the skipped count of the last run.',
 'C15': 'The abort loop is repeated with on_skip returning None and with validation hooks that turn down some files and directories.',
 'C16': 'The match() <-> rglob() clauses also ask about paths that run through symlinked directories.',
 'C17': 'Relations are also run with NODIR, and over letterless patterns whose ranges cover the letters of one case only.',
 'C18': 'A reach sweep runs all subsets of GLOBSTAR / GLOBSTARLONG / FOLLOW / MATCHBASE / DOTGLOB / NODIR over fixed patterns; a WcMatch sweep uses empty, missing and exclusion-only patterns on trees with newline names.',
 'C19': 'Every descriptor is also answered alone in a forked child of a fresh interpreter; lists returned by translate() are changed by the caller; after a call refused for the pattern limit the same text must be answered as in a fresh interpreter.',
}
EXTRA_TEXT3 = {
 'C01': 'In name mode a pattern with its slashes written escaped is answered like the plain spelling; the bracket table covers a caret after a dropped reversed range.',
 'C02': 'Slash-less MATCHBASE patterns are asked in turn under POSIX and Windows rules in one process, against explicit expectations.',
 'C03': 'The file-system stream also judges the positive side (every hidden entry the reference walk must return is returned) and names the hidden links of its tree outright after each kind of globstar; the dot-spelling table includes extended groups.',
 'C04': 'A raw-text shard compares glob() and globmatch(REALPATH) on pattern texts the AST cannot spell (groups and brackets that never close, around separators); the literal sweep writes its globstar variants as `***` under GLOBSTARLONG; catalogue tree 16 has links that cannot be resolved.',
 'C06': 'Pickled and deep-copied compiled matchers must filter the candidates through symlinked directories like the original.',
 'C08': 'A third of the grid also runs as bytes lists / tuples; every regex translate() returns must have the type of the patterns.',
 'C09': 'is_magic() of a text and of its escaped form answers the same for bytes, and the same with FORCEWIN|FORCEUNIX as with neither.',
 'C11': 'filter / globfilter are also entered with nothing to filter (empty list, tuple, iterator).',
 'C12': 'Roots are also given as objects that only have __fspath__ (str, bytes), as os.DirEntry, and as descriptor 0 with the working directory elsewhere; an exception for one way of giving the root counts as a difference.',
 'C13': 'Single literal patterns are swept against exclusions that only match the directory spelling, through every way of delivering an exclusion (exclude=, inline last, inline first, empty exclude=).',
 'C14': 'Trees with newline / trailing-backslash names are run with empty and catch-all patterns.',
 'C15': 'Every file an independent walk (the oracle of C14) visits must go to exactly one of on_match / on_skip; one configuration has a file pattern whose expansions are all empty.',
 'C17': 'Separators are also written as mixed runs of escaped backslashes and slashes, also directly after `!(...)` groups.',
 'C18': 'is_magic / escape are compared between bytes and str over drive and UNC spellings; absolute names are filtered against `/**/...` patterns under REALPATH.',
 'C19': 'A lazy iglob(dir_fd=...) that is partly consumed must leave descriptors the caller opens in the meantime alone.',
}
EXTRA_TEXT4 = {
 'C01': 'The bracket table is also run under SPLIT for sets that hold a bar.',
 'C05': 'A quarter of the multi-segment cases write every separator escaped.',
 'C06': 'Clause (d) also gives the root as a descriptor of the parent plus a relative root_dir.',
 'C07': 'The fixed table also runs as bytes lists and tuples.',
 'C09': 'On the file system a name that is_magic() calls plain, used as it stands, must select exactly that entry.',
 'C15': 'A consumer that kills right after receiving an on_error value must still see the errored file routed to on_skip.',
 'C16': 'Absolute alternatives that only appear after BRACE / SPLIT expansion must raise ValueError in Path.glob / rglob.',
 'C17': 'Segment patterns that start with a written dot are run under NODOTDIR / DOTGLOB against names whose `.` / `..` segment ends with either separator.',
 'C18': 'Tilde patterns (inclusions and inline exclusions) are compared between bytes and str with HOME set to the tree.',
 'C20': 'Adjacent escapes that decode to a high and a low surrogate must stay two characters.',
}
for _k, _v in EXTRA_TEXT4.items():
    EXTRA_TEXT3[_k] = (EXTRA_TEXT3.get(_k, '') + ' ' + _v).strip()
for _k, _v in EXTRA_TEXT.items():
    CHECKS[_k]['text'] = CHECKS[_k]['text'].rstrip() + ' ' + _v
for _k, _v in EXTRA_TEXT3.items():
    EXTRA_TEXT2[_k] = (EXTRA_TEXT2.get(_k, '') + ' ' + _v).strip()
for _k, _v in EXTRA_TEXT2.items():
    CHECKS[_k]['text'] = CHECKS[_k]['text'].rstrip() + ' ' + _v
