#!/bin/sh
# Run the repository's test suite serially against a tree (default /repo); prints pass/fail summary.
D="${1:-/repo}"
cd "$D" && PYTHONPATH="$D" /venv/bin/python -m pytest -q -p no:cacheprovider 2>&1 | tail -4
