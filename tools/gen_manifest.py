#!/venv/bin/python
"""Regenerate MANIFEST.json from the table below (keeps the manifest valid and in one place)."""
import json, os, sys
HERE = os.path.dirname(os.path.dirname(os.path.abspath(__file__)))
sys.path.insert(0, HERE)
from tools.manifest_table import CHECKS, NOT_APPLICABLE, HOOK_COMMITS

props = [json.loads(l) for l in open(os.path.join(HERE, 'properties.jsonl'))]
ids = [p['id'] for p in props]
checks = []
for pid in ids:
    if pid not in CHECKS:
        continue
    c = CHECKS[pid]
    checks.append({
        'property_id': pid,
        'quick_cmd': 'bin/vcheck %s --tier quick' % pid,
        'thorough_cmd': 'bin/vcheck %s --tier thorough' % pid,
        'evidence_file': 'evidence/%s.json' % pid,
        'replay_cmd_template': 'bin/vcheck %s --replay {path}' % pid,
        'engine': 'wcverif',
        'level_claimed': {'category': 'exploration', 'text': c['text'], 'design_ref': c['design_ref']},
        'level_note': c['note'],
        'technique': c['technique'],
    })
na = [{'property_id': pid, 'reason': NOT_APPLICABLE.get(pid, 'check not built yet in this session; see DESIGN.md section 3 for the plan')}
      for pid in ids if pid not in CHECKS]
m = {
    'version': 1,
    'setup_cmd': 'sh bin/setup',
    'hooks': {
        'guard': 'WCMATCH_VERIF',
        'enable': 'none needed: every observation is public API, translate() output, the lru_cache introspection the unit tests already use, or a harness-side wrapper of os.scandir / bracex.iexpand; checks import wcmatch from $VERIF_REPO (default /repo) in a fresh process',
        'baseline_off_cmd': 'cd /repo && /venv/bin/python -m pytest -ra -q -p no:cacheprovider --timeout=900 --continue-on-collection-errors',
        'source_commits': HOOK_COMMITS,
        'add_only': True,
    },
    'engines': [{'name': 'wcverif', 'path': 'wcverif/', 'serves_properties': [c['property_id'] for c in checks],
                 'kind_free_text': 'property-based testing: bounded-exhaustive enumeration + seeded Hypothesis strategies / state machines + atheris fuzz targets, judged by reference models, differential and metamorphic oracles'}],
    'checks': checks,
    'notes': 'All checks: exit 0 held (KNOWN-FINDING lines possible), 1 VIOLATION, 2 harness error. VERIF_SEED selects the random streams; exhaustive sub-spaces do not depend on it. known_findings.json lists genuine defects (fixed / open).',
    'not_applicable': na,
}
json.dump(m, open(os.path.join(HERE, 'MANIFEST.json'), 'w'), indent=1)
print('checks', len(checks), 'not_applicable', len(na))
