#!/bin/sh
# tools/soak.sh <tier> <seed> [<seed> ...]  - run every check at the given seeds on the unchanged tree (evidence to a scratch dir);
# prints one line per run, and the VIOLATION / HARNESS lines if any.  Used to look for false alarms before trusting a check.
HERE=$(cd "$(dirname "$0")/.." && pwd); cd "$HERE" || exit 2
TIER="$1"; shift
EV=$(mktemp -d /tmp/wcverif-soak-XXXXXX)
for s in "$@"; do
  for c in C01 C02 C03 C04 C05 C06 C07 C08 C09 C10 C11 C12 C13 C14 C15 C16 C17 C18 C19 C20; do
    VERIF_SEED=$s VERIF_EVIDENCE_DIR="$EV" bin/vcheck $c --tier "$TIER" 2>&1 | grep -E "^VIOLATION|tier=|HARNESS" | cut -c1-260
    for f in $(ls replays/$c/*.json 2>/dev/null); do :; done
  done
done
rm -rf "$EV"
