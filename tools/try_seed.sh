#!/bin/sh
# tools/try_seed.sh <seed-id> <worktree> <check> [<check> ...]
# Confirms a seeded change (suite unchanged, demo fails with / passes without) and runs the named quick checks against it.
ID="$1"; WT="$2"; shift 2
HERE="$(cd "$(dirname "$0")/.." && pwd)"
mkdir -p "$HERE/seeded/$ID"
cp "$WT/_seed/patch.diff" "$WT/_seed/demo.py" "$HERE/seeded/$ID/" 2>/dev/null
cp "$WT/_seed/meta.json" "$HERE/seeded/$ID/agent_meta.json" 2>/dev/null
echo "== suite with change"; (cd "$WT" && PYTHONPATH="$WT" /venv/bin/python -m pytest -q -p no:cacheprovider 2>&1 | tail -1)
echo "== demo with change"; (cd /tmp && PYTHONPATH="$WT" /venv/bin/python "$HERE/seeded/$ID/demo.py" >/dev/null 2>&1; echo "exit $?")
echo "== demo on /repo (unchanged)"; (cd /tmp && PYTHONPATH=/repo /venv/bin/python "$HERE/seeded/$ID/demo.py" >/dev/null 2>&1; echo "exit $?")
for C in "$@"; do
  echo "== check $C against the change"
  VERIF_REPO="$WT" VERIF_EVIDENCE_DIR=/tmp/seed-ev-$ID "$HERE/bin/vcheck" "$C" --tier quick 2>&1 | grep -v -E "conda|KNOWN-F" | cut -c1-400 | tail -4
done
