#!/bin/sh
# tools/confirm_seed.sh <seed-id> <dir with patch.diff demo.py meta.json> <check> [<check> ...]
# Copies the seed into seeded/<id>/, applies the patch to a FRESH scratch worktree of /repo (never the agent's own tree), confirms the
# suite summary and the demonstration, runs the named quick checks against it and removes the worktree.
ID="$1"; SRC="$2"; shift 2
HERE="$(cd "$(dirname "$0")/.." && pwd)"; cd "$HERE" || exit 2
mkdir -p "seeded/$ID"
cp "$SRC/patch.diff" "$SRC/demo.py" "seeded/$ID/" || exit 2
cp "$SRC/meta.json" "seeded/$ID/agent_meta.json"
WT=$(mktemp -d /tmp/wcverif-confirm-XXXXXX); rmdir "$WT"
git -C /repo worktree add -q "$WT" HEAD || exit 2
if ! git -C "$WT" apply "$HERE/seeded/$ID/patch.diff" 2>/dev/null && ! git -C "$WT" apply --3way "$HERE/seeded/$ID/patch.diff" >/dev/null 2>&1; then
  echo "== patch does not apply to HEAD"; git -C /repo worktree remove --force "$WT"; exit 3
fi
echo "== suite with change: $(cd "$WT" && PYTHONPATH="$WT" /venv/bin/python -m pytest -q -p no:cacheprovider 2>&1 | tail -1)"
(cd /tmp && PYTHONPATH="$WT" /venv/bin/python "$HERE/seeded/$ID/demo.py" >/dev/null 2>&1; echo "== demo with change: exit $?")
(cd /tmp && PYTHONPATH=/repo /venv/bin/python "$HERE/seeded/$ID/demo.py" >/dev/null 2>&1; echo "== demo on /repo: exit $?")
for C in "$@"; do
  echo "== check $C against the change"
  VERIF_REPO="$WT" VERIF_EVIDENCE_DIR="$WT.ev" timeout 1800 "$HERE/bin/vcheck" "$C" --tier quick 2>&1 | grep -E "^VIOLATION|tier=|HARNESS|problem" | cut -c1-400 | tail -4
done
git -C /repo worktree remove --force "$WT"; rm -rf "$WT.ev"
