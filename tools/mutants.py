#!/venv/bin/python
"""Sensitivity driver (development tool, not a registered check).

For each mutant: copy /repo's working tree to a scratch directory, apply a search/replace edit, run the repository's own
test suite there (a mutant the suite already kills is reported as such) and then the quick tier of the listed checks with
VERIF_REPO pointing at the copy.  Writes sensitivity.md.

usage: tools/mutants.py [name-substring ...]      (no argument = all)
"""
import os
import re
import sys
import json
import shutil
import subprocess
import tempfile

HERE = os.path.dirname(os.path.dirname(os.path.abspath(__file__)))
REPO = '/repo'
P = 'wcmatch/_wcparse.py'
GLB = 'wcmatch/glob.py'
WCM = 'wcmatch/wcmatch.py'
MT = 'wcmatch/_wcmatch.py'
PL = 'wcmatch/pathlib.py'
UT = 'wcmatch/util.py'
PX = 'wcmatch/posix.py'
FN = 'wcmatch/fnmatch.py'

# (name, [properties expected to notice], file, old, new)
MUTANTS = [
    ('swap-plus-star-group', ['C01', 'C02'], P, "_PLUS_GROUP = r'(?:{})+'", "_PLUS_GROUP = r'(?:{})*'"),
    ('posix-punct-range', ['C01', 'C18'], PX, '"punct": "\\x21-\\x2f\\x3a-\\x40\\x5c\\x5b-\\x60\\x7b-\\x5c\\x7e",\n    "space": "\\x09-\\x0d\\x20",\n    "upper": "\\x41-\\x5a",\n    "word": "\\x30-\\x39\\x41-\\x5a\\x5f\\x61-\\x7a",\n    "xdigit": "\\x30-\\x39\\x41-\\x46\\x61-\\x66"\n}\n\nascii',
     '"punct": "\\x21-\\x2f\\x3a-\\x40\\x5c\\x5b-\\x60\\x7b-\\x5c\\x7d",\n    "space": "\\x09-\\x0d\\x20",\n    "upper": "\\x41-\\x5a",\n    "word": "\\x30-\\x39\\x41-\\x5a\\x5f\\x61-\\x7a",\n    "xdigit": "\\x30-\\x39\\x41-\\x46\\x61-\\x66"\n}\n\nascii'),
    ('qmark-optional', ['C01', 'C02'], P, "_QMARK = r'.'", "_QMARK = r'.?'"),
    ('drop-need-char', ['C01', 'C02'], P, "_NEED_CHAR = r'(?=.)'", "_NEED_CHAR = r''"),
    ('path-star-crosses-sep', ['C02'], P, "_PATH_STAR = r'[^{sep}]*?'", "_PATH_STAR = r'.*?'"),
    ('drop-need-char-path', ['C02'], P, "_NEED_CHAR_PATH = r'(?=[^{sep}])'", "_NEED_CHAR_PATH = r''"),
    ('path-trail-empty', ['C02', 'C09'], P, "_PATH_TRAIL = r'{}*?'", "_PATH_TRAIL = r'(?:{}){{0}}'"),
    ('sep-single', ['C02', 'C09'], P, "                    current.append(self.sep + _ONE_OR_MORE)\n                    self.consume_path_sep(i)\n                    self.matchbase = False",
     "                    current.append(self.sep)\n                    self.consume_path_sep(i)\n                    self.matchbase = False"),
    ('matchbase-survives-slash', ['C02'], P, "                    current.append(self.sep + _ONE_OR_MORE)\n                    self.consume_path_sep(i)\n                    self.matchbase = False",
     "                    current.append(self.sep + _ONE_OR_MORE)\n                    self.consume_path_sep(i)"),
    ('drop-nodir-regex', ['C02', 'C07', 'C12'], P, "    if positive and flags & NODIR:\n        ptype = util.BYTES if isinstance(positive[0].pattern, bytes) else util.UNICODE",
     "    if positive and flags & NODIR and False:\n        ptype = util.BYTES if isinstance(positive[0].pattern, bytes) else util.UNICODE"),
    ('drop-no-dot-sequence', ['C03'], P, '            value = _NO_DOT if self.after_start and not self.dot else ""', '            value = ""'),
    ('star-dot1-for-dot2', ['C03'], P, "            if self.after_start and not self.dot:\n                star = self.path_star_dot2\n                globstar = self.path_gstar_dot2",
     "            if self.after_start and not self.dot:\n                star = self.path_star_dot1\n                globstar = self.path_gstar_dot2"),
    ('exclude-without-dotmatch', ['C03', 'C07'], P, "        negative = compile_pattern(exclude, flags=flags | DOTMATCH | _NO_GLOBSTAR_CAPTURE, limit=limit)[0]",
     "        negative = compile_pattern(exclude, flags=flags | _NO_GLOBSTAR_CAPTURE, limit=limit)[0]"),
    ('glob-hidden-not-checked-deep', ['C03', 'C05'], GLB, "            if deep and not hidden and is_dir and follow:", "            if deep and is_dir and follow:"),
    ('glob-nodotdir-not-default', ['C03', 'C05'], GLB, "        if not self.scandotdir and not self.flags & NODOTDIR:\n            self.flags |= NODOTDIR", "        if False:\n            self.flags |= NODOTDIR"),
    ('realpath-at-end-inverted', ['C04', 'C06'], MT, "at_end = m.end(i) >= end", "at_end = m.end(i) < end"),
    ('realpath-isdir-skipped', ['C04'], MT, "        if not is_dir and is_file_dir:\n            is_dir = True\n            filename = self.filename + sep", "        if False:\n            is_dir = True\n            filename = self.filename + sep"),
    ('realpath-exclude-follow-false', ['C04'], MT, "                    if self._fs_match(pattern, filename, is_win, True, symlinks, root, dir_fd):", "                    if self._fs_match(pattern, filename, is_win, False, symlinks, root, dir_fd):"),
    ('glob-literal-unlowered', ['C05', 'C13'], GLB, "        return a.lower() == b if not self.case_sensitive else a == b", "        return a == b"),
    ('glob-zero-segment-dropped', ['C05', 'C04'], GLB, "            if globstar_end and curdir:\n                yield os.path.join(curdir, self.empty), True", "            if False:\n                yield os.path.join(curdir, self.empty), True"),
    ('glob-lexists-to-exists', ['C05', 'C04'], GLB, "                            if self._lexists(match) and not self._is_excluded(match, is_dir):", "                            if os.path.exists(self._prepend_base(match)) and not self._is_excluded(match, is_dir):"),
    ('glob-follow-always', ['C06', 'C05', 'C04'], GLB, "            follow = not is_link or self.follow_links or globstar_follow", "            follow = True"),
    ('glob-follow-not-cleared-globstarlong', ['C06', 'C05'], GLB, "        self.follow_links = bool(self.flags & FOLLOW) and not self.globstarlong  # type: bool", "        self.follow_links = bool(self.flags & FOLLOW)  # type: bool"),
    ('wcmatch-followlinks-true', ['C06', 'C14'], WCM, "os.walk(self._root_dir, followlinks=self.follow_links)", "os.walk(self._root_dir, followlinks=True)"),
    ('is-negative-ignores-ext-exemption', ['C07'], P, "        return bool(flags & NEGATE and pattern[0:1] in NEGATIVE_SYM and pattern[1:2] not in ROUND_BRACKET)", "        return bool(flags & NEGATE and pattern[0:1] in NEGATIVE_SYM)"),
    ('negateall-default-single-star', ['C07'], P, "            default = b'**' if isinstance(negative[0].pattern, bytes) else '**'\n            positive.append(_compile(default, flags | (GLOBSTAR if flags & PATHNAME else 0)))",
     "            default = b'*' if isinstance(negative[0].pattern, bytes) else '*'\n            positive.append(_compile(default, flags | (GLOBSTAR if flags & PATHNAME else 0)))"),
    ('split-inside-brackets', ['C07'], P, "            elif c == '[':\n                index = i.index\n                try:\n                    self._sequence(i)\n                except StopIteration:\n                    i.rewind(i.index - index)\n\n        if start < len(pattern):",
     "            elif c == '[' and False:\n                index = i.index\n                try:\n                    self._sequence(i)\n                except StopIteration:\n                    i.rewind(i.index - index)\n\n        if start < len(pattern):"),
    ('plus-capture-without-outer', ['C08'], P, "_PLUS_CAPTURE_GROUP = r'((?#)(?:{})+)'", "_PLUS_CAPTURE_GROUP = r'(?:(?#)({})+)'"),
    ('translate-drops-capture-mode', ['C08'], P, "        self.capture = self.translate", "        self.capture = False"),
    ('translate-differs-star', ['C08'], P, "        if self.capture:\n            # Strip out unnecessary regex comments\n            pattern = pattern.replace('(?#)', '')", "        if self.capture:\n            # Strip out unnecessary regex comments\n            pattern = pattern.replace('(?#)', '').replace('.*?', '.+?', 1)"),
    ('escape-forgets-tilde', ['C09'], P, "    re.compile(r'([-!~*?()\\[\\]|{}]|(?<!\\\\)(?:(?:[\\\\]{2})*)\\\\(?!\\\\))'),\n    re.compile(br'([-!~*?()", "    re.compile(r'([-!*?()\\[\\]|{}]|(?<!\\\\)(?:(?:[\\\\]{2})*)\\\\(?!\\\\))'),\n    re.compile(br'([-!~*?()"),
    ('escape-no-backslash-doubling', ['C09'], P, "    pattern = pattern.replace(slash, double_slash)\n", "    pattern = pattern\n"),
    ('is-magic-ignores-split', ['C09'], P, "    if flags & SPLIT:\n        magic |= MAGIC_SPLIT[ptype]  # type: ignore[arg-type]\n        magic_drive |= MAGIC_SPLIT[ptype]  # type: ignore[arg-type]", "    if flags & SPLIT and False:\n        magic |= MAGIC_SPLIT[ptype]  # type: ignore[arg-type]\n        magic_drive |= MAGIC_SPLIT[ptype]  # type: ignore[arg-type]"),
    ('range-check-flipped', ['C10', 'C01'], P, "        if v2 < v1:\n            result.pop()", "        if v2 > v1:\n            result.pop()"),
    ('clean-up-inverse-early-return-removed', ['C10', 'C08'], P, "        self.inv_ext -= closed", "        self.inv_ext = 0"),
    ('limit-off-by-one', ['C11'], P, "                if 0 < limit < total:\n                    raise PatternLimitException(f\"Pattern limit exceeded the limit of {limit:d}\")\n                if expanded not in seen:\n                    seen.add(expanded)\n                    if is_negative(expanded, flags):\n                        negative.append(_compile(",
     "                if 0 < limit <= total:\n                    raise PatternLimitException(f\"Pattern limit exceeded the limit of {limit:d}\")\n                if expanded not in seen:\n                    seen.add(expanded)\n                    if is_negative(expanded, flags):\n                        negative.append(_compile("),
    ('rglob-drops-limit', ['C11'], PL, "        yield from self.glob(patterns, flags=flags | _EXTMATCHBASE, limit=limit, exclude=exclude)", "        yield from self.glob(patterns, flags=flags | _EXTMATCHBASE, exclude=exclude)"),
    ('bracex-unlimited', ['C11'], P, "                yield from bracex.iexpand(p, keep_escapes=True, limit=limit)", "                yield from bracex.iexpand(p, keep_escapes=True, limit=0)"),
    ('mark-on-files', ['C12'], GLB, "        path = os.path.join(path, self.empty) if dir_only or (self.mark and is_dir) else path", "        path = os.path.join(path, self.empty) if dir_only or self.mark else path"),
    ('format-ignores-dir-only', ['C12', 'C05'], GLB, "        path = os.path.join(path, self.empty) if dir_only or (self.mark and is_dir) else path", "        path = os.path.join(path, self.empty) if (self.mark and is_dir) else path"),
    ('seen-never-consulted', ['C13'], GLB, "        if path not in self.seen:\n            self.seen.add(path)\n            unique = True", "        if True:\n            self.seen.add(path)\n            unique = True"),
    ('exclusion-without-dir-slash', ['C13', 'C04'], GLB, "        if is_dir and not filename.endswith(self.sep):\n            filename += self.sep", "        if False:\n            filename += self.sep"),
    ('nounique-dedups-patterns', ['C13'], GLB, "                    if not self.nounique or is_neg:\n                        if expanded in seen:", "                    if True:\n                        if expanded in seen:"),
    ('wcmatch-hidden-basename-of-dir', ['C14'], WCM, "        if valid and (not self.show_hidden and util.is_hidden(fullpath)):\n            valid = False\n        return self.on_validate_file(base, name) if valid else valid", "        if valid and (not self.show_hidden and util.is_hidden(base)):\n            valid = False\n        return self.on_validate_file(base, name) if valid else valid"),
    ('wcmatch-skipped-counts-dirs', ['C14', 'C15'], WCM, "                    if not self._valid_folder(base, name):\n                        dirs.remove(name)", "                    if not self._valid_folder(base, name):\n                        dirs.remove(name)\n                        self._skipped += 1"),
    ('wcmatch-matchbase-not-masked', ['C14'], WCM, "        self.flags = self.flags & (_wcparse.FLAG_MASK ^ MATCHBASE)", "        self.flags = self.flags & _wcparse.FLAG_MASK"),
    ('wcmatch-abort-check-after-file-dropped', ['C15'], WCM, "                        if value is not None:\n                            yield value\n\n                    if self.is_aborted():\n                        break", "                        if value is not None:\n                            yield value\n\n                    if False:\n                        break"),
    ('wcmatch-abort-check-top-dropped', ['C15'], WCM, "        for base, dirs, files in os.walk(self._root_dir, followlinks=self.follow_links):\n            if self.is_aborted():\n                break", "        for base, dirs, files in os.walk(self._root_dir, followlinks=self.follow_links):\n            if False:\n                break"),
    ('wcmatch-skipped-not-reset', ['C15'], WCM, "        self.on_reset()\n        self._skipped = 0", "        self.on_reset()"),
    ('wcmatch-kill-cleared-on-run', ['C15'], WCM, "        self.on_reset()\n        self._skipped = 0", "        self.on_reset()\n        self._skipped = 0\n        self._abort = False"),
    ('pathlib-match-without-extmatchbase', ['C16', 'C03'], PL, "        return self.globmatch(patterns, flags=flags | _EXTMATCHBASE, limit=limit, exclude=exclude)", "        return self.globmatch(patterns, flags=flags, limit=limit, exclude=exclude)"),
    ('pathlib-no-dir-slash', ['C16'], PL, "        if isinstance(self, Path) and name and self.is_dir():", "        if False:"),
    ('pathlib-noabsolute-dropped', ['C16', 'C10'], PL, "                flags | _NOABSOLUTE\n", "                flags\n"),
    ('pathlib-forcewin-honoured', ['C16'], PL, "        flags = (flags & FLAG_MASK) | _PATHNAME\n        if flags & REALPATH:", "        flags = (flags & (FLAG_MASK | _FORCEWIN | _FORCEUNIX)) | _PATHNAME\n        if flags & REALPATH:"),
    ('get-case-prefers-ignorecase', ['C17'], P, "    elif flags & CASE:\n        case_sensitive = True\n    else:\n        case_sensitive = False", "    elif flags & IGNORECASE:\n        case_sensitive = False\n    else:\n        case_sensitive = True"),
    ('fnmatch-no-force-cancellation', ['C17'], FN, "    if flags & FORCEUNIX and flags & FORCEWIN:\n        flags ^= FORCEWIN | FORCEUNIX", "    if False:\n        flags ^= FORCEWIN | FORCEUNIX"),
    ('drive-not-case-insensitive', ['C17'], P, "    return f'(?i:{re.escape(drive)})' if case else re.escape(drive)", "    return re.escape(drive)"),
    ('ascii-posix-edited', ['C18'], PX, '    "alpha": "\\x41-\\x5a\\x61-\\x7a",\n    "ascii": "\\x00-\\x7f",\n    "blank": "\\x09\\x20",\n    "cntrl": "\\x00-\\x1f\\x7f",\n    "digit": "\\x30-\\x39",\n    "graph": "\\x21-\\x5c\\x7e",\n    "lower": "\\x61-\\x7a",\n    "print": "\\x20-\\x5c\\x7e",\n    "punct": "\\x21-\\x2f\\x3a-\\x40\\x5c\\x5b-\\x60\\x7b-\\x5c\\x7e",\n    "space": "\\x09-\\x0d\\x20",\n    "upper": "\\x41-\\x5a",\n    "word": "\\x30-\\x39\\x41-\\x5a\\x5f\\x61-\\x7a",\n    "xdigit": "\\x30-\\x39\\x41-\\x46\\x61-\\x66"\n}\n\n\ndef',
     '    "alpha": "\\x41-\\x5a\\x61-\\x7a\\xc0-\\xff",\n    "ascii": "\\x00-\\x7f",\n    "blank": "\\x09\\x20",\n    "cntrl": "\\x00-\\x1f\\x7f",\n    "digit": "\\x30-\\x39",\n    "graph": "\\x21-\\x5c\\x7e",\n    "lower": "\\x61-\\x7a",\n    "print": "\\x20-\\x5c\\x7e",\n    "punct": "\\x21-\\x2f\\x3a-\\x40\\x5c\\x5b-\\x60\\x7b-\\x5c\\x7e",\n    "space": "\\x09-\\x0d\\x20",\n    "upper": "\\x41-\\x5a",\n    "word": "\\x30-\\x39\\x41-\\x5a\\x5f\\x61-\\x7a",\n    "xdigit": "\\x30-\\x39\\x41-\\x46\\x61-\\x66"\n}\n\n\ndef'),
    ('bnorm-octal-removed', ['C18', 'C20'], UT, "    (\\\\(?:x[\\da-fA-F]{2}|([0-7]{1,3})))|\n    (\\\\[^x]) |\n    (\\\\[x])", "    (\\\\(?:x[\\da-fA-F]{2}|([0-7]{1,2})))|\n    (\\\\[^x]) |\n    (\\\\[x])"),
    ('match-type-check-removed', ['C18'], MT, "            if not isinstance(self.filename, type(root)):", "            if False:"),
    ('lru-untyped', ['C19'], P, "@functools.lru_cache(maxsize=256, typed=True)", "@functools.lru_cache(maxsize=256, typed=False)"),
    ('cache-key-drops-flags', ['C19'], P, "@functools.lru_cache(maxsize=256, typed=True)\ndef _compile(pattern: AnyStr, flags: int) -> Pattern[AnyStr]:\n    \"\"\"Compile the pattern to regex.\"\"\"\n\n    return re.compile(WcParse(pattern, flags & FLAG_MASK).parse())",
     "_CACHE = {}\n\n\ndef _compile(pattern: AnyStr, flags: int) -> Pattern[AnyStr]:\n    \"\"\"Compile the pattern to regex.\"\"\"\n\n    key = (pattern, flags & ~DOTMATCH)\n    if key not in _CACHE:\n        _CACHE[key] = re.compile(WcParse(pattern, flags & FLAG_MASK).parse())\n    return _CACHE[key]"),
    ('eq-ignores-exclude', ['C19'], MT, "            self._include == other._include and\n            self._exclude == other._exclude and", "            self._include == other._include and"),
    ('pickle-drops-follow', ['C19'], MT, "copyreg.pickle(WcRegexp, lambda p: (WcRegexp, (p._include, p._exclude, p._real, p._path, p._follow)))", "copyreg.pickle(WcRegexp, lambda p: (WcRegexp, (p._include, p._exclude, p._real, p._path)))"),
    ('rawchars-octal-two-digits', ['C20'], UT, "    (\\\\(?:U[\\da-fA-F]{8}|u[\\da-fA-F]{4}|x[\\da-fA-F]{2}|([0-7]{1,3})))|", "    (\\\\(?:U[\\da-fA-F]{8}|u[\\da-fA-F]{4}|x[\\da-fA-F]{2}|([0-7]{1,2})))|"),
    ('rawchars-decode-always', ['C20'], UT, "    if not normalize and not is_raw_chars:\n        return pattern", "    is_raw_chars = True"),
    ('rawchars-drop-keep-backslash-pair', ['C20'], UT, '    r"\\\\": r\'\\\\\',', '    r"\\\\": \'\\\\\','),
]


def run(cmd, **kw):
    return subprocess.run(cmd, capture_output=True, text=True, **kw)


def main():
    want = [w for w in sys.argv[1:] if not w.startswith('--')]
    after = None
    for w in sys.argv[1:]:
        if w.startswith('--after='):
            after = w.split('=', 1)[1]
    rows = []
    started = after is None
    for name, props, path, old, new in MUTANTS:
        if not started:
            started = name == after
            continue
        if want and not any(w in name for w in want):
            continue
        d = tempfile.mkdtemp(prefix='wcverif-mut-')
        try:
            shutil.copytree(REPO, os.path.join(d, 'r'), ignore=shutil.ignore_patterns('.git', '__pycache__', '.pytest_cache'))
            root = os.path.join(d, 'r')
            fp = os.path.join(root, path)
            s = open(fp).read()
            if s.count(old) != 1:
                rows.append((name, props, 'EDIT-FAILED(%d)' % s.count(old), {}))
                print(name, 'edit failed', s.count(old))
                continue
            open(fp, 'w').write(s.replace(old, new))
            r2 = run(['/venv/bin/python', '-m', 'pytest', '-q', '-p', 'no:cacheprovider'], cwd=root, env=dict(os.environ, PYTHONPATH=root), timeout=900)
            tail = [l for l in r2.stdout.splitlines() if 'passed' in l or 'failed' in l][-1:]
            m = re.search(r'(\d+) failed', ' '.join(tail))
            nfail = int(m.group(1)) if m else 0
            suite = 'suite-passes' if nfail <= 2 else 'suite-kills(%d)' % nfail
            res = {}
            for pid in props:
                r3 = run([os.path.join(HERE, 'bin', 'vcheck'), pid, '--tier', 'quick'], cwd=HERE,
                         env=dict(os.environ, VERIF_REPO=root, VERIF_SEED=os.environ.get('VERIF_SEED', '1'), VERIF_EVIDENCE_DIR=os.path.join(d, 'ev')), timeout=1800)
                viol = [l for l in r3.stdout.splitlines() if l.startswith('VIOLATION')]
                res[pid] = 'KILLED' if r3.returncode == 1 and viol else ('rc=%d' % r3.returncode)
            rows.append((name, props, suite, res))
            print(name, suite, res)
            sys.stdout.flush()
            with open(os.path.join(HERE, 'sensitivity.md'), 'a') as f:
                f.write('| %s | %s | %s | %s |\n' % (name, ' '.join(props), suite, ' '.join('%s:%s' % kv for kv in res.items())))
        finally:
            shutil.rmtree(d, ignore_errors=True)


if __name__ == '__main__':
    main()
