#!/bin/sh
# tools/seed_try.sh <patch.diff> <check> [<check>...]  - apply a patch to a scratch worktree, run the quick tier of the checks, clean up
HERE=$(cd "$(dirname "$0")/.." && pwd); cd "$HERE" || exit 2
P="$1"; shift
WT=$(mktemp -d /tmp/wcverif-try-XXXXXX); rmdir "$WT"
git -C /repo worktree add -q "$WT" HEAD || exit 2
git -C "$WT" apply "$P" 2>/dev/null || git -C "$WT" apply --3way "$P" >/dev/null 2>&1 || { git -C /repo worktree remove --force "$WT"; exit 2; }
for c in "$@"; do
  VERIF_REPO="$WT" VERIF_EVIDENCE_DIR="$WT.ev" timeout 1800 bin/vcheck "$c" --tier quick 2>&1 | grep -E "^VIOLATION|tier=|HARNESS|problem" | cut -c1-400 | tail -4
done
git -C /repo worktree remove --force "$WT"; rm -rf "$WT.ev"
