#!/venv/bin/python
"""tools/seed_meta.py <seed-id> <property> <caught_by> <history>   - turn agent_meta.json into meta.json and add a README row."""
import json, os, sys
HERE = os.path.dirname(os.path.dirname(os.path.abspath(__file__)))
sid, prop, caught, note = sys.argv[1:5]
d = os.path.join(HERE, 'seeded', sid)
am = json.load(open(os.path.join(d, 'agent_meta.json')))
meta = {'property': prop, 'breaks': am.get('summary'), 'needs': am.get('needs'), 'files': am.get('files'),
        'author': 'sub-agent that saw only the property text, its own scratch worktree and one-line descriptions of earlier ideas to avoid',
        'confirmed': ['repository suite unchanged with the patch (2 failed, 1194 passed, 151 skipped)', 'demo.py exits 1 with the patch', 'demo.py exits 0 on /repo'],
        'ran': 'tools/try_seed.sh %s <worktree> <checks>   (VERIF_REPO=<worktree> bin/vcheck <check> --tier quick, VERIF_SEED=1)' % sid,
        'caught_by': caught, 'history': note}
json.dump(meta, open(os.path.join(d, 'meta.json'), 'w'), indent=1)
os.remove(os.path.join(d, 'agent_meta.json'))
open(os.path.join(HERE, 'seeded', 'README.md'), 'a').write('| %s | %s | %s | %s |\n' % (sid, prop, caught, note))
print('recorded', sid)
