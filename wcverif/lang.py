"""Language-level evaluation shared by C01, C02, C03 (and reused by C08/C17/C18): one pattern AST against many names,
real wcmatch entry points on one side, the reference verdicts on the other."""
from . import ast as A
from . import ref as R
from . import names as N
from . import findings as K
from . import util
from .util import F, G
from .runner import h64


def fn_flags(cfg):
    fl = 0
    if cfg.get('ext', True):
        fl |= F.EXTMATCH
    if cfg.get('dot'):
        fl |= F.DOTMATCH
    if cfg.get('icase'):
        fl |= F.IGNORECASE
    if cfg.get('case'):
        fl |= F.CASE
    if cfg.get('unix', False):
        fl |= F.FORCEUNIX
    return fl


def gl_flags(cfg):
    fl = 0
    if cfg.get('ext', True):
        fl |= G.EXTGLOB
    for key, bit in (('dot', G.DOTGLOB), ('globstar', G.GLOBSTAR), ('globstarlong', G.GLOBSTARLONG), ('matchbase', G.MATCHBASE),
                     ('nodotdir', G.NODOTDIR), ('nodir', G.NODIR), ('icase', G.IGNORECASE), ('case', G.CASE)):
        if cfg.get(key):
            fl |= bit
    return fl


def fn_accepts(text, names, fl, entry):
    """Set of accepted names through one of the three fnmatch-style entry points."""
    if entry == 0:
        return set(F.filter(names, text, flags=fl))
    if entry == 1:
        m = F.compile(text, flags=fl)
        return {n for n in names if m.match(n)}
    return {n for n in names if F.fnmatch(n, text, flags=fl)}


def gl_accepts(text, paths, fl, entry):
    if entry == 'pathlib':
        from .util import WP
        return {n for n in paths if WP.PurePosixPath(n).match(text, flags=fl)}
    if entry == 0:
        return set(G.globfilter(paths, text, flags=fl))
    if entry == 1:
        m = G.compile(text, flags=fl)
        return {n for n in paths if m.match(n)}
    return {n for n in paths if G.globmatch(n, text, flags=fl)}


class Tally:
    """Per-pattern bookkeeping: which verdicts occurred (for the non-trivial rule)."""
    __slots__ = ('must', 'mustnot', 'either', 'judged')

    def __init__(self):
        self.must = self.mustnot = self.either = self.judged = 0


def eval_fn(seq, cfg, names, out, armed, prop, select, entry=0, stream='enum'):
    """Evaluate one Seq in fnmatch mode.  `select(name)` says whether the name belongs to `prop`'s domain."""
    ext = cfg.get('ext', True)
    if ext:
        text = A.render_loose(seq) if cfg.get('loose') else A.render(seq, True, cfg.get('variant', 0))
        rseq = seq
    else:
        rseq = A.flatten_ext(seq)
        text = A.render_plain(rseq)
    fl = fn_flags(cfg)
    dot = bool(cfg.get('dot'))
    icase = bool(cfg.get('icase')) and not cfg.get('case')
    try:
        with util.watchdog():
            acc = fn_accepts(text, names, fl, entry)
    except util.HarnessBudget:
        out.stats['watchdog_skipped'] += 1
        return None
    except Exception as e:
        case = {'mode': 'fn', 'ast': A.to_json(seq), 'pattern': text, 'cfg': cfg, 'error': list(util.exc_bucket(e)), 'name': None}
        ids = K.seg_classes(rseq, 'x', dot, False, False, False, R.MUST, text) & {'K1'}
        out.violation(case, bucket=('exc', case['error'][0]))
        return None
    t = Tally()
    for nm in names:
        if not select(nm):
            continue
        v = R.name_verdict(rseq, nm, dot, icase)
        if v == R.EITHER:
            t.either += 1
            continue
        t.judged += 1
        got = nm in acc
        if v == R.MUST:
            t.must += 1
        else:
            t.mustnot += 1
        if got != (v == R.MUST):
            ids = K.seg_classes(rseq, nm, dot, False, False, got, v, text)
            hit = sorted(ids & set(armed))
            case = {'mode': 'fn', 'ast': A.to_json(seq), 'pattern': text, 'cfg': cfg, 'name': nm, 'verdict': v, 'impl': got,
                    'entry': entry, 'stream': stream}
            if hit:
                out.known_hit(hit[0], case)
            else:
                out.violation(case, size=A.size(seq) * 100 + len(nm) * 10 + len(text),
                              bucket=(prop, v, tuple(sorted(ids)), _shape(rseq)))
    out.evaluations += t.judged
    out.either += t.either
    if A.has_wild(rseq) and t.must and t.mustnot:
        out.nontrivial(('fn', text, tuple(sorted(cfg.items()))))
    return t


def _shape(seq):
    """Coarse shape signature used only to bucket unexplained disagreements."""
    return ''.join({'lit': 'l', 'any': '?', 'star': '*', 'set': '['}.get(n[0], n[1] if n[0] == 'ext' else 'x') for n in A.walk(seq))[:6]


def eval_path(pp, cfg, paths, out, armed, prop, select, entry=0, stream='enum'):
    """Evaluate one PathPat in glob mode (no REALPATH)."""
    ext = cfg.get('ext', True)
    text = A.render_path(pp, True, loose=bool(cfg.get('loose')), sep='\\/' if cfg.get('escsep') else '/', variant=cfg.get('variant', 0))
    fl = gl_flags(cfg)
    if cfg.get('pathlib'):
        # PurePath normalises its argument; judge the normalised spelling
        import pathlib as _pl
        paths = sorted({str(_pl.PurePosixPath(p)) for p in paths})
        entry = 'pathlib'
    try:
        with util.watchdog():
            acc = gl_accepts(text, paths, fl, entry)
    except util.HarnessBudget:
        out.stats['watchdog_skipped'] += 1
        return None
    except Exception as e:
        case = {'mode': 'gl', 'ast': A.to_json(pp), 'pattern': text, 'cfg': cfg, 'error': list(util.exc_bucket(e)), 'name': None}
        out.violation(case, bucket=('exc', case['error'][0]))
        return None
    kw = dict(dot=bool(cfg.get('dot')), globstar=bool(cfg.get('globstar')), globstarlong=bool(cfg.get('globstarlong')),
              matchbase=bool(cfg.get('matchbase')), nodotdir=bool(cfg.get('nodotdir')), nodir=bool(cfg.get('nodir')),
              icase=bool(cfg.get('icase')) and not cfg.get('case'), extmatchbase=bool(cfg.get('pathlib')))
    t = Tally()
    for p in paths:
        if not select(p):
            continue
        v = R.path_verdict(pp, p, **kw)
        if v == R.EITHER:
            t.either += 1
            continue
        t.judged += 1
        got = p in acc
        if v == R.MUST:
            t.must += 1
        else:
            t.mustnot += 1
        if got != (v == R.MUST):
            ids = K.path_classes(pp, p, kw, got, v, text)
            hit = sorted(ids & set(armed))
            case = {'mode': 'gl', 'ast': A.to_json(pp), 'pattern': text, 'cfg': cfg, 'name': p, 'verdict': v, 'impl': got,
                    'entry': entry, 'stream': stream}
            if hit:
                out.known_hit(hit[0], case)
            else:
                sz = sum(A.size(s) if not isinstance(s, str) else 1 for s in pp.segs)
                out.violation(case, size=sz * 100 + len(p) * 10 + len(text), bucket=(prop, v, tuple(sorted(ids)), len(pp.segs)))
    out.evaluations += t.judged
    out.either += t.either
    wild = any(isinstance(s, str) or A.has_wild(s) for s in pp.segs)
    if wild and t.must and t.mustnot and (len(pp.segs) >= 2 or any(isinstance(s, str) for s in pp.segs)):
        out.nontrivial(('gl', text, tuple(sorted(cfg.items()))))
    return t


def replay_case(case):
    """Re-run one recorded (pattern AST, cfg, name) through the real API and the reference; ok=False if it still
    disagrees."""
    util.clear_caches()
    cfg = case['cfg']
    obj = A.from_json(case['ast'])
    nm = case['name']
    if case['mode'] == 'fn':
        ext = cfg.get('ext', True)
        rseq = obj if ext else A.flatten_ext(obj)
        text = (A.render_loose(obj) if cfg.get('loose') else A.render(obj, True, cfg.get('variant', 0))) if ext else A.render_plain(rseq)
        fl = fn_flags(cfg)
        try:
            got = [bool(F.fnmatch(nm, text, flags=fl)), nm in F.filter([nm], text, flags=fl),
                   bool(F.compile(text, flags=fl).match(nm))]
        except Exception as e:
            return False, {'pattern': text, 'error': list(util.exc_bucket(e))}
        v = R.name_verdict(rseq, nm, bool(cfg.get('dot')), bool(cfg.get('icase')) and not cfg.get('case'))
    else:
        text = A.render_path(obj, True, loose=bool(cfg.get('loose')), sep='\\/' if cfg.get('escsep') else '/', variant=cfg.get('variant', 0))
        fl = gl_flags(cfg)
        try:
            if cfg.get('pathlib'):
                from .util import WP
                got = [bool(WP.PurePosixPath(nm).match(text, flags=fl))]
            else:
                got = [bool(G.globmatch(nm, text, flags=fl)), nm in G.globfilter([nm], text, flags=fl),
                       bool(G.compile(text, flags=fl).match(nm))]
        except Exception as e:
            return False, {'pattern': text, 'error': list(util.exc_bucket(e))}
        v = R.path_verdict(obj, nm, dot=bool(cfg.get('dot')), globstar=bool(cfg.get('globstar')),
                           globstarlong=bool(cfg.get('globstarlong')), matchbase=bool(cfg.get('matchbase')),
                           nodotdir=bool(cfg.get('nodotdir')), nodir=bool(cfg.get('nodir')),
                           icase=bool(cfg.get('icase')) and not cfg.get('case'), extmatchbase=bool(cfg.get('pathlib')))
    ok = True
    if len(set(got)) != 1:
        ok = False
    elif v != R.EITHER and got[0] != (v == R.MUST):
        ok = False
    return ok, {'pattern': text, 'name': nm, 'verdict': v, 'impl': got}


def shrink_case(case):
    """AST-level delta debugging: drop a node, replace a group by one alternative, shorten the name."""
    if '_regression_of' in case or case.get('name') is None:
        return case

    def known_class(c, detail):
        """Does the (smaller) failing case fall into the class of a listed finding?  Shrinking must not drift from an unexplained
        failure into one that a finding explains (the report would then show a known case instead of the new one)."""
        from . import findings as K
        try:
            obj = A.from_json(c['ast'])
            cfg = c['cfg']
            impl = detail.get('impl')
            if not impl or len(set(impl)) != 1 or detail.get('verdict') in (None, R.EITHER):
                return False
            if c['mode'] == 'fn':
                rseq = obj if cfg.get('ext', True) else A.flatten_ext(obj)
                ids = K.seg_classes(rseq, c['name'], bool(cfg.get('dot')), False, False, impl[0], detail['verdict'], detail.get('pattern'))
            else:
                kw = dict(dot=bool(cfg.get('dot')), globstar=bool(cfg.get('globstar')), globstarlong=bool(cfg.get('globstarlong')),
                          matchbase=bool(cfg.get('matchbase')), nodotdir=bool(cfg.get('nodotdir')), extmatchbase=bool(cfg.get('pathlib')))
                ids = K.path_classes(obj, c['name'], kw, impl[0], detail['verdict'], detail.get('pattern') or '')
            return bool(ids)
        except Exception:
            return False

    def still(c):
        ok, detail = replay_case(c)
        return (not ok) and not known_class(c, detail)
    if not still(case):
        return case
    cur = dict(case, _unshrunk={'ast': case.get('ast'), 'name': case.get('name'), 'pattern': case.get('pattern')})
    improved = True
    while improved:
        improved = False
        obj = A.from_json(cur['ast'])
        for cand in _ast_candidates(obj):
            c = dict(cur, ast=A.to_json(cand))
            if still(c):
                cur = c
                improved = True
                break
        if improved:
            continue
        nm = cur['name']
        for i in range(len(nm)):
            c = dict(cur, name=nm[:i] + nm[i + 1:])
            if c['name'] and still(c):
                cur = c
                improved = True
                break
    ok, detail = replay_case(cur)
    cur.update({'pattern': detail.get('pattern'), 'verdict': detail.get('verdict'), 'impl': detail.get('impl')})
    return cur


def _seq_candidates(seq):
    for i, n in enumerate(seq):
        yield seq[:i] + seq[i + 1:]
        if n[0] == 'ext':
            for a in n[2]:
                yield seq[:i] + tuple(a) + seq[i + 1:]
            if len(n[2]) > 1:
                for j in range(len(n[2])):
                    yield seq[:i] + (('ext', n[1], n[2][:j] + n[2][j + 1:]),) + seq[i + 1:]
            for j, a in enumerate(n[2]):
                for a2 in _seq_candidates(a):
                    yield seq[:i] + (('ext', n[1], n[2][:j] + (a2,) + n[2][j + 1:]),) + seq[i + 1:]


def _ast_candidates(obj):
    if isinstance(obj, A.PathPat):
        segs = obj.segs
        if len(segs) > 1:
            for i in range(len(segs)):
                yield obj._replace(segs=segs[:i] + segs[i + 1:])
        for i, s in enumerate(segs):
            if isinstance(s, str):
                continue
            for s2 in _seq_candidates(s):
                if s2:
                    yield obj._replace(segs=segs[:i] + (s2,) + segs[i + 1:])
        if obj.dup != 1:
            yield obj._replace(dup=1)
    else:
        for s2 in _seq_candidates(obj):
            if s2:
                yield s2
