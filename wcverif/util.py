"""Small shared helpers: flag tables, exception bucketing, scandir budget, temp trees."""
import os
import re
import sys
import shutil
import tempfile
import traceback
import contextlib
import collections

from . import bootstrap

bootstrap()

from wcmatch import fnmatch as F, glob as G, wcmatch as WM, pathlib as WP, _wcparse as WCP  # noqa: E402

FN_FLAGS = {
    'CASE': F.CASE, 'IGNORECASE': F.IGNORECASE, 'RAWCHARS': F.RAWCHARS, 'NEGATE': F.NEGATE,
    'MINUSNEGATE': F.MINUSNEGATE, 'DOTMATCH': F.DOTMATCH, 'EXTMATCH': F.EXTMATCH, 'BRACE': F.BRACE,
    'SPLIT': F.SPLIT, 'NEGATEALL': F.NEGATEALL, 'FORCEWIN': F.FORCEWIN, 'FORCEUNIX': F.FORCEUNIX,
}
GL_FLAGS = dict(FN_FLAGS)
GL_FLAGS.update({
    'DOTGLOB': G.DOTGLOB, 'EXTGLOB': G.EXTGLOB, 'GLOBSTAR': G.GLOBSTAR, 'REALPATH': G.REALPATH, 'FOLLOW': G.FOLLOW,
    'MATCHBASE': G.MATCHBASE, 'MARK': G.MARK, 'NODIR': G.NODIR, 'GLOBTILDE': G.GLOBTILDE, 'NOUNIQUE': G.NOUNIQUE,
    'NODOTDIR': G.NODOTDIR, 'SCANDOTDIR': G.SCANDOTDIR, 'GLOBSTARLONG': G.GLOBSTARLONG,
})
WM_FLAGS = {
    'CASE': WM.CASE, 'IGNORECASE': WM.IGNORECASE, 'RAWCHARS': WM.RAWCHARS, 'EXTMATCH': WM.EXTMATCH,
    'GLOBSTAR': WM.GLOBSTAR, 'BRACE': WM.BRACE, 'MINUSNEGATE': WM.MINUSNEGATE, 'MATCHBASE': WM.MATCHBASE,
    'DIRPATHNAME': WM.DIRPATHNAME, 'FILEPATHNAME': WM.FILEPATHNAME, 'SYMLINKS': WM.SYMLINKS, 'HIDDEN': WM.HIDDEN,
    'RECURSIVE': WM.RECURSIVE,
}


def flags_of(names, table=GL_FLAGS):
    v = 0
    for n in names:
        v |= table[n]
    return v


def names_of(value, table=GL_FLAGS):
    out = []
    for n, b in sorted(table.items()):
        if value & b and n not in ('DOTGLOB', 'EXTGLOB'):
            out.append(n)
    return out


_DIG = re.compile(r'\d+')


def exc_bucket(e):
    """(type name, innermost wcmatch frame, message without digits) - one bucket per root cause."""
    tb = traceback.extract_tb(e.__traceback__)
    frame = '?'
    for fr in tb:
        if os.sep + 'wcmatch' + os.sep in fr.filename:
            frame = '%s:%s' % (os.path.basename(fr.filename), fr.name)
    return (type(e).__name__, frame, _DIG.sub('N', str(e))[:60])


class HarnessBudget(Exception):
    """The harness's directory-listing ceiling was hit (inconclusive, never a violation by itself)."""


class ScandirCounter:
    """Context manager that wraps os.scandir, counting calls and recording listed paths."""

    def __init__(self, ceiling=20000, record=False):
        self.ceiling = ceiling
        self.calls = 0
        self.record = record
        self.listed = []

    def __enter__(self):
        self._orig = os.scandir
        outer = self

        def scandir(path='.'):
            outer.calls += 1
            if outer.calls > outer.ceiling:
                raise HarnessBudget('scandir ceiling %d exceeded' % outer.ceiling)
            if outer.record:
                if isinstance(path, int):
                    try:
                        p = os.readlink('/proc/self/fd/%d' % path)
                    except OSError:
                        p = '<fd %d>' % path
                else:
                    p = os.fsdecode(path)
                outer.listed.append(p)
            return outer._orig(path)
        os.scandir = scandir
        return self

    def __exit__(self, *a):
        os.scandir = self._orig
        return False


@contextlib.contextmanager
def watchdog(seconds=3.0):
    """Raise HarnessBudget if the body runs longer than `seconds` (catastrophic regex backtracking in the generated
    regex is a cost, not a property; such cases are skipped and counted, never reported)."""
    import signal

    def handler(signum, frame):
        raise HarnessBudget('watchdog %.1fs' % seconds)
    try:
        old = signal.signal(signal.SIGALRM, handler)
    except ValueError:      # not in the main thread: no watchdog available
        yield
        return
    signal.setitimer(signal.ITIMER_REAL, seconds)
    try:
        yield
    finally:
        signal.setitimer(signal.ITIMER_REAL, 0)
        signal.signal(signal.SIGALRM, old)


@contextlib.contextmanager
def temp_root():
    d = tempfile.mkdtemp(prefix='wcverif-')
    try:
        yield d
    finally:
        shutil.rmtree(d, ignore_errors=True)


@contextlib.contextmanager
def chdir(path):
    old = os.getcwd()
    os.chdir(path)
    try:
        yield
    finally:
        os.chdir(old)


def build_tree(root, spec):
    """spec: list of (kind, relpath[, target]); kind in f d l."""
    for ent in spec:
        kind, path = ent[0], ent[1]
        p = os.path.join(root, path)
        if kind == 'd':
            os.makedirs(p, exist_ok=True)
        elif kind == 'f':
            os.makedirs(os.path.dirname(p), exist_ok=True)
            with open(p, 'w'):
                pass
        elif kind == 'l':
            os.makedirs(os.path.dirname(p), exist_ok=True)
            if not os.path.lexists(p):
                os.symlink(ent[2], p)
        else:
            raise ValueError(kind)


def clear_caches():
    """Clear every functools cache found in a wcmatch / bracex module (the documented one is _wcparse._compile)."""
    n = 0
    for name, mod in list(sys.modules.items()):
        if mod is None or not (name == 'wcmatch' or name.startswith('wcmatch.') or name == 'bracex' or name.startswith('bracex.')):
            continue
        for v in list(vars(mod).values()):
            if callable(getattr(v, 'cache_clear', None)):
                v.cache_clear()
                n += 1
    return n


_NOINFO = collections.namedtuple('CacheInfo', 'hits misses maxsize currsize')(0, 0, 0, 0)


def cache_info():
    """cache_info() of the documented pattern cache, or zeros when the code under test no longer exposes one."""
    f = getattr(WCP._compile, 'cache_info', None)
    return f() if f else _NOINFO


def hyp():
    """Import hypothesis lazily (after bootstrap put .deps on the path)."""
    import hypothesis
    return hypothesis


def hyp_settings(n, shrink=True):
    import hypothesis
    from hypothesis import settings, HealthCheck, Phase
    phases = [Phase.generate] + ([Phase.shrink] if shrink else [])
    return settings(max_examples=n, database=None, deadline=None, derandomize=False,
                    report_multiple_bugs=False, suppress_health_check=list(HealthCheck), phases=phases,
                    verbosity=hypothesis.Verbosity.quiet)
