"""Property-based verification machinery for facelessuser/wcmatch (see /verif/DESIGN.md)."""
import os
import sys

VERIF_DIR = os.path.dirname(os.path.dirname(os.path.abspath(__file__)))
REPO = os.environ.get('VERIF_REPO', '/repo')


def bootstrap():
    """Put the repository under test first on sys.path and make third-party deps importable."""
    deps = os.path.join(VERIF_DIR, '.deps')
    if os.path.isdir(deps) and deps not in sys.path:
        sys.path.append(deps)
    if REPO not in sys.path[:1]:
        sys.path.insert(0, REPO)
    # The repo is also installed in editable mode in /venv; when VERIF_REPO points elsewhere make sure
    # no stale copy of the package is already imported.
    for m in list(sys.modules):
        if m == 'wcmatch' or m.startswith('wcmatch.'):
            f = getattr(sys.modules[m], '__file__', '') or ''
            if not os.path.abspath(f).startswith(os.path.abspath(REPO) + os.sep):
                del sys.modules[m]
    import wcmatch  # noqa: F401
    f = os.path.abspath(wcmatch.__file__)
    if not f.startswith(os.path.abspath(REPO) + os.sep):
        raise RuntimeError('wcmatch imported from %s, expected under %s' % (f, REPO))
    return f
