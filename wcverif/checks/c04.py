"""C04 - globmatch with REALPATH matches exactly what glob globs."""
import os

from . import c06 as C06
from ..runner import Outcome, HarnessError
from .. import ast as A, ref as R, trees as T, walker as W, fscommon as FC, findings as K, util
from ..util import G

PROPERTY = 'C04'
RULE = ('case = (tree, 1-2 path patterns, optional exclusion, flag configuration, way of giving the root); S = glob() results without '
        'trailing separators; candidates = every entry of the tree (also through symlinked directories, each directory also with a '
        'trailing separator) plus everything glob returned; M = candidates for which globmatch(REALPATH, same flags, same root) is '
        'True; oracle: S == M; side clauses: a path that does not exist never matches, an absolute candidate never matches a '
        'relative pattern, a directory-demanding pattern matches an un-slashed candidate iff it is a directory; roots given as '
        'root_dir, cwd and dir_fd; non-trivial = the tree has a symlink or hidden entry, the pattern has a wildcard and S is neither '
        'empty nor everything; evaluations = candidates compared')
ASSUMPTIONS = ['differential between two code paths of wcmatch (directory walker vs regex + post-hoc symlink inspection)',
               'cyclic / nested directory symlinks are removed when the flags make `**` follow links']

CFG_KEYS = ['globstar', 'globstarlong', 'follow', 'dot', 'matchbase', 'nodir', 'icase', 'mark', 'scandotdir']


def shards(tier, seed, scale=1.0):
    n = 500 if tier == 'quick' else 8000
    out = []
    for s in range(16):
        out.append({'name': 'diff-%d' % s, 'kind': 'diff', 'seed': seed * 1000 + s, 'n': max(10, int(n * scale))})
    for s in range(8):
        out.append({'name': 'excl-%d' % s, 'kind': 'excl', 'seed': seed * 1000 + 300 + s, 'n': max(10, int(n * scale / 2))})
    for ti in range(len(T.CATALOGUE)):
        out.append({'name': 'literal-%d' % ti, 'kind': 'literal', 'tree': ti})
    for s in range(4):
        out.append({'name': 'mutate-%d' % s, 'kind': 'mutate', 'seed': seed * 1000 + 500 + s, 'n': max(5, int(n * scale / 12))})
    out.append({'name': 'raw', 'kind': 'raw'})
    return out


# pattern texts that the AST cannot spell (constructs that never close, mixed with separators and brackets): the crawler splits the text
# at separators with a scanner of its own, the matcher translates it whole - both must read it the same way
RAW_TREE = [('d', '@(a'), ('f', '@(a/bc'), ('f', '@(a/b'), ('d', '*(x'), ('f', '*(x/a'), ('d', '[a'), ('f', '[a/b]'), ('f', '[a/b'), ('d', 'a'), ('f', 'a/b'), ('f', 'a/bc'),
            ('d', '!(a'), ('f', '!(a/b'), ('f', 'ab'), ('d', '{a'), ('f', '{a/b}'), ('f', '@(a|b'), ('d', 'x'), ('f', 'x/[b'), ('f', 'x/@(a')]
RAW_PATTERNS = ['@(a/[b]c', '@(a/bc', '@(a/[b]', '@(a/?c', '@(a/[b]c)', '*(x/[a]', '*(x/a', '[a/b]', '[a/b', '[a/[b]', '!(a/[b]', '!(a/b', '@(a/*', '*/[b]c', '*/[b',
                'x/@(a', 'x/[b', '@(a|b', '@(a|[b]', '{a/b}', '@(a/[b', '?(a/[b]c', '+(a/[!x]c', '@(a/\\[b]c', '@(@(a/[b]c']


def run_raw(desc=None):
    out = Outcome()
    out.exhaustive = True
    with FC.built_tree(RAW_TREE) as (root, _r):
        model = T.Model(root)
        cands = []
        for p_, isd_, _l in model.all_entries(follow=False, max_depth=4):
            cands.append(p_)
            if isd_:
                cands.append(p_ + '/')
        for text in RAW_PATTERNS:
            for fl in (G.EXTGLOB, 0, G.EXTGLOB | G.GLOBSTAR, G.EXTGLOB | G.DOTGLOB, G.EXTGLOB | G.BRACE):
                out.evaluations += 1
                try:
                    with util.watchdog(10), util.ScandirCounter(4000):
                        res = G.glob(text, flags=fl, root_dir=root)
                        matched = G.globfilter(cands, text, flags=fl | G.REALPATH, root_dir=root)
                except util.HarnessBudget:
                    continue
                except Exception as e:
                    out.violation({'kind': 'raw', 'pattern': text, 'flags': fl, 'problem': 'exception ' + type(e).__name__}, bucket=('raw-exc', text))
                    continue
                S = {W.strip_sep(W.norm_dup(r_)) for r_ in res}
                M = {W.strip_sep(W.norm_dup(c_)) for c_ in matched}
                if S != M:
                    d = sorted(S ^ M)[0]
                    out.violation({'kind': 'raw', 'pattern': text, 'flags': fl, 'name': d, 'glob_only': d in S, 'glob': sorted(S)[:8], 'matched': sorted(M)[:8],
                                   'problem': 'glob() and globmatch(REALPATH) read a pattern text differently'}, bucket=('raw', text))
                elif S:
                    out.nontrivial(('raw', text, fl))
    out.sample({'stream': 'raw', 'patterns': len(RAW_PATTERNS)})
    return out


def run_shard(desc):
    if desc['kind'] == 'excl':
        return run_excl(desc)
    if desc['kind'] == 'mutate':
        return run_mutate(desc)
    if desc['kind'] == 'literal':
        return run_literal(desc)
    if desc['kind'] == 'raw':
        return run_raw(desc)
    return run_diff(desc)


def candidates(model, glob_out):
    c = set()
    for p, is_dir, _l in model.all_entries(follow=True, max_depth=4):
        c.add(p)
        if is_dir:
            c.add(p + '/')
    for p in glob_out:
        c.add(p)
    return c


def classify(pp_list, excl, cfg, p, glob_only, model, root):
    ids = set()
    last_link_nondir = os.path.islink(os.path.join(root, W.strip_sep(p))) and not os.path.isdir(os.path.join(root, W.strip_sep(p)))
    kw = FC.ref_kwargs(cfg)
    for pp in pp_list:
        lastgs = isinstance(pp.segs[-1], str)
        if glob_only and last_link_nondir and lastgs:
            ids.add('K15')
        if not glob_only and lastgs and pp.trail and not model.isdir(W.strip_sep(p)):
            ids.add('K16')
        firstgs = isinstance(pp.segs[0], str)
        if firstgs and cfg.get('matchbase') and all(isinstance(s_, str) for s_ in pp.segs) and not pp.trail:
            ids.add('K17')
        if not glob_only and W.strip_sep(p).endswith('\n') and not p.endswith('/') and (
                cfg.get('matchbase') or ((cfg.get('globstar') or cfg.get('globstarlong')) and any(isinstance(s_, str) for s_ in pp.segs))):
            ids.add('K33')
        if glob_only:
            segl = C06.seg_list(pp, cfg)
            comps = [c_ for c_ in W.strip_sep(p).split('/') if c_ != '']
            # some globstar of the pattern does not follow links (under GLOBSTARLONG: a `**` next to a `***` that does)
            if any(s_[0] == 'gs' and not s_[1] for s_ in segl) and comps and '..' not in comps:
                lf = C06.link_flags(root, comps)
                if any(lf[:-1]) and C06.ambiguous_link_alignment(comps, lf, segl, bool(cfg.get('icase'))):
                    ids.add('K29')
        text = A.render_path(pp)
        # language-level defects show on one side only when the walker never offers the name (`.`/`..`) or offers it
        # to a differently assembled regex
        ids |= K.path_classes(pp, W.strip_sep(p), kw, not glob_only, R.MUSTNOT if not glob_only else R.MUST, text)
        ids |= K.path_classes(pp, W.strip_sep(p), kw, glob_only, R.MUSTNOT if glob_only else R.MUST, text)
    return ids


def undecided_zone(pps, excl, cfg):
    """Zones the statement leaves open (DESIGN.md 2.2): a segment pattern that can match the empty string (it may or
    may not be aligned with "no segment": the walker never does, the regex does), and a `**` directly next to a `***`
    under GLOBSTARLONG (the walker lets the last one decide about following links, the regex the first)."""
    mixed = None
    for pp in list(pps) + list(excl or []):
        prev = None
        for s in pp.segs:
            if isinstance(s, str):
                if cfg.get('globstarlong') and prev is not None and prev != s:
                    mixed = 'mixed globstar kinds'
                prev = s
                continue
            prev = None
            if R.seg_nullable(s):
                return 'nullable segment'
    return mixed


def compare(root, pps, excl, cfg, how, out, armed, spec):
    zone = undecided_zone(pps, excl, cfg)
    linkfree_only = False
    if zone == 'mixed globstar kinds' and not excl:
        # which of two adjacent globstars of different kinds decides about links is open - but only paths that pass
        # through a symlink can tell the difference; every other candidate is judged as usual
        linkfree_only = True
        out.stats['mixed_kinds_judged_on_linkfree_paths'] += 1
    elif zone:
        out.either += 1
        out.stats['either:' + zone] += 1
        return None
    # cfg 'escsep': every separator between segments is written `\\/` (same meaning: the crawler splits there and the matcher sees a
    # separator, so e.g. MATCHBASE has nothing to prepend)
    sep = '\\/' if cfg.get('escsep') else '/'
    texts = [A.render_path(pp, True, sep=sep) for pp in pps]
    etexts = [A.render_path(e, True, sep=sep) for e in excl] if excl else None
    fl = FC.cfg_flags(cfg)
    model = T.Model(root)
    kw = {}
    if etexts:
        if cfg.get('negate_inline'):
            texts = texts + ['!' + t for t in etexts]
            fl |= G.NEGATE
        else:
            kw['exclude'] = etexts
    case = {'tree': [list(e) for e in spec], 'asts': [A.to_json(pp) for pp in pps], 'excl_asts': [A.to_json(e) for e in excl] if excl else None,
            'patterns': texts, 'exclude': etexts, 'cfg': cfg, 'how': how}
    fd = None
    try:
        with util.watchdog(10), util.ScandirCounter(8000):
            if how == 'root_dir':
                rk = {'root_dir': root}
            elif how == 'dir_fd':
                fd = os.open(root, os.O_RDONLY)
                rk = {'dir_fd': fd}
            else:
                rk = {}
            ctx = util.chdir(root) if how == 'cwd' else util.chdir(os.getcwd())
            if how != 'cwd' and sum(map(len, texts)) % 2 == 0:
                # half of the cases: an absolute pattern that matches nothing stands first in the list (both calls);
                # what the other patterns denote does not depend on it
                texts = [root + '/zz_no_such_entry'] + texts
                case['patterns'] = texts
                case['abs_first'] = True
            with ctx:
                res = G.glob(texts, flags=fl, **kw, **rk)
                S = {W.strip_sep(W.norm_dup(r)) for r in res}
                cands = sorted(candidates(model, res))
                matched = G.globfilter(cands, texts, flags=fl | G.REALPATH, **kw, **rk)
                M = {W.strip_sep(W.norm_dup(c)) for c in matched}
                # side clauses
                side = []
                for c in cands[:6]:
                    ghost = c.rstrip('/') + 'zz_missing'
                    if G.globmatch(ghost, texts, flags=fl | G.REALPATH, **kw, **rk):
                        side.append(('nonexistent path matched', ghost))
                    if how == 'root_dir':
                        absc = os.path.join(root, c)
                        if G.globmatch(absc, texts, flags=fl | G.REALPATH, **kw, **rk):
                            side.append(('absolute candidate matched a relative pattern', absc))
                for pp, t in zip(pps, texts):
                    if pp.trail and not excl and len(pps) == 1:
                        for c in cands:
                            if c.endswith('/'):
                                continue
                            a = G.globmatch(c, t, flags=fl | G.REALPATH, **rk)
                            b = G.globmatch(c + '/', t, flags=fl | G.REALPATH, **rk)
                            isd = model.isdir(c)
                            if (a and not isd) or (isd and a != b):
                                side.append(('directory-demanding pattern vs un-slashed candidate', c))
                                break
    except util.HarnessBudget:
        out.stats['budget_skipped'] += 1
        return None
    finally:
        if fd is not None:
            os.close(fd)
    out.evaluations += len(cands)
    diffs = [(p, True) for p in sorted(S - M)] + [(p, False) for p in sorted(M - S)]
    if linkfree_only:
        def linkfree(p):
            comps = [c_ for c_ in W.strip_sep(p).split('/') if c_ != '']
            return '..' not in comps and not any(C06.link_flags(root, comps))
        nd = [d for d in diffs if linkfree(d[0])]
        out.either += len(diffs) - len(nd)
        diffs = nd
        side = []
    for p, glob_only in diffs:
        ids = classify(pps, excl, cfg, p, glob_only, model, root)
        hit = sorted(ids & set(armed))
        c = dict(case, name=p, glob_only=glob_only, glob=sorted(S)[:10], matched=sorted(M)[:10])
        if hit:
            out.known_hit(hit[0], c)
        else:
            out.violation(c, size=sum(map(len, texts)) * 10 + len(p), bucket=('diff', glob_only, tuple(sorted(ids))))
            break
    for what, c in side:
        ids = set()
        if what.startswith('directory-demanding'):
            for pp in pps:
                if isinstance(pp.segs[-1], str):
                    ids.add('K16')
        hit = sorted(ids & set(armed))
        cs = dict(case, name=c, problem=what)
        if hit:
            out.known_hit(hit[0], cs)
        else:
            out.violation(cs, size=sum(map(len, texts)) * 10, bucket=('side', what))
            break
    return S, cands


def run_diff(desc):
    from hypothesis import given, strategies as st, seed
    out = Outcome()
    armed = desc['armed']

    @seed(desc['seed'])
    @util.hyp_settings(desc['n'], shrink=False)
    @given(FC.st_case(max_segs=3), st.data(), FC.st_cfg(CFG_KEYS), st.sampled_from(['root_dir', 'root_dir', 'cwd', 'dir_fd']),
           st.sampled_from([0, 0, 0, 1, 2]), st.booleans())
    def test(sp, data, cfg, how, nexcl, inline):
        spec, pp = sp
        names = sorted({os.path.basename(e[1]) for e in spec} | {'.', '..'})
        pps = [pp]
        if data.draw(st.integers(0, 3)) == 0:
            pps.append(data.draw(FC.st_pathpat(3, names=names)))
        excl = [data.draw(FC.st_pathpat(2, trail=False, names=names)) for _ in range(nexcl)] if nexcl else None
        cfg = dict(cfg)
        if excl and inline:
            cfg['negate_inline'] = True
        if data.draw(st.integers(0, 4)) == 0:
            cfg['escsep'] = True
            out.stats['escaped_separators'] += 1
        follow = FC.follows_links(cfg)
        with FC.built_tree(spec, follow_safe=follow) as (root, removed):
            out.stats['cases'] += 1
            out.stats['how_' + how] += 1
            out.stats['with_exclusion'] += bool(excl)
            r = compare(root, pps, excl, cfg, how, out, armed, spec)
            if r is None:
                return
            S, cands = r
            has_link_or_hidden = any(e[0] == 'l' or os.path.basename(e[1]).startswith('.') for e in spec)
            wild = any(isinstance(s, str) or A.has_wild(s) for p_ in pps for s in p_.segs)
            if has_link_or_hidden and wild and S and len(S) < len({W.strip_sep(c) for c in cands}):
                out.nontrivial((tuple(map(tuple, spec)), tuple(A.render_path(p_) for p_ in pps), tuple(sorted(cfg)), how))
            if out.stats['cases'] % 47 == 1:
                out.sample({'tree': [e[1] + ('->' + e[2] if e[0] == 'l' else '/' if e[0] == 'd' else '') for e in spec],
                            'patterns': [A.render_path(p_) for p_ in pps], 'cfg': cfg, 'how': how, 'glob': sorted(S)[:8],
                            'candidates': len(cands)})
    test()
    return out


def run_excl(desc):
    """Exclusion patterns containing `**` on trees with symlinked directories, inclusions that reach through the links by
    ordinary segments: the exclusion must be applied the same way by glob() and by globmatch(REALPATH)."""
    from hypothesis import given, strategies as st, seed
    out = Outcome()
    armed = desc['armed']
    cat = [T.CATALOGUE[2], T.CATALOGUE[9], T.CATALOGUE[13], T.CATALOGUE[6], T.CATALOGUE[3]]

    def pats(spec):
        names = sorted({os.path.basename(e[1]) for e in spec})
        lit = st.sampled_from(names).map(A.lits)
        wild = st.sampled_from([(A.STAR,), (A.ANY, A.STAR), (A.lit('l'), A.STAR), (A.STAR, A.lit('.'), A.STAR), (A.mkset(False, ('r', 'a', 'z')), A.STAR),
                                (A.lit('a'), A.STAR), (A.STAR, A.lit('a')), (A.lit('r'), A.STAR), (A.lit('s'), A.STAR)])
        seg = st.one_of(wild, wild, lit)
        inc = st.lists(seg, min_size=1, max_size=3).map(lambda l: A.PathPat(False, tuple(l), False, 1))
        x = st.one_of(lit, wild)
        exc = st.one_of(
            x.map(lambda s: A.PathPat(False, (A.GS, s), False, 1)),
            x.map(lambda s: A.PathPat(False, (A.GS, s, A.GS), False, 1)),
            x.map(lambda s: A.PathPat(False, (s, A.GS), False, 1)),
            st.tuples(x, x).map(lambda t: A.PathPat(False, (A.GS, t[0], t[1]), False, 1)),
            st.tuples(x, x).map(lambda t: A.PathPat(False, (t[0], A.GS, t[1]), False, 1)))
        return st.tuples(st.just(spec), st.lists(inc, min_size=1, max_size=2), st.lists(exc, min_size=1, max_size=2))

    @seed(desc['seed'])
    @util.hyp_settings(desc['n'], shrink=False)
    @given(st.one_of(st.sampled_from(cat), st.sampled_from(cat), T.st_tree(False)).flatmap(pats),
           st.lists(st.sampled_from(['dot', 'follow', 'nodir', 'mark', 'icase', 'scandotdir']), max_size=2, unique=True), st.booleans(),
           st.sampled_from(['root_dir', 'root_dir', 'cwd', 'dir_fd']))
    def test(t, extra, inline, how):
        spec, pps, excl = t
        cfg = {k: True for k in extra}
        cfg['globstar'] = True
        if inline:
            cfg['negate_inline'] = True
        with FC.built_tree(spec, follow_safe=FC.follows_links(cfg)) as (root, _removed):
            out.stats['excl_cases'] += 1
            r = compare(root, pps, excl, cfg, how, out, armed, spec)
            if r is None:
                return
            S, cands = r
            if any(e[0] == 'l' for e in spec):
                out.nontrivial((tuple(map(tuple, spec)), tuple(A.render_path(p_) for p_ in pps), tuple(A.render_path(e) for e in excl),
                                tuple(sorted(cfg)), how))
            if out.stats['excl_cases'] % 47 == 1:
                out.sample({'tree': [e[1] + ('->' + e[2] if e[0] == 'l' else '/' if e[0] == 'd' else '') for e in spec],
                            'patterns': [A.render_path(p_) for p_ in pps], 'exclude': [A.render_path(e) for e in excl], 'cfg': cfg, 'how': how,
                            'glob': sorted(S)[:8]})
    test()
    return out


def run_literal(desc):
    """Systematic sweep over a catalogue tree: every entry path as a literal pattern, with per-segment case swap, `*`, `**`
    and prefix-star variants, with and without IGNORECASE: glob() and globmatch(REALPATH) must agree."""
    out = Outcome()
    out.exhaustive = True
    armed = desc['armed']
    spec = T.CATALOGUE[desc['tree']]
    with FC.built_tree(spec) as (root, _r):
        model = T.Model(root)
        entries = [p for p, _d, _l in model.all_entries(follow=False, max_depth=6)]
        n = 0
        for segs in FC.literal_variants(entries):
            for cfg in ({}, {'icase': True}, {'icase': True, 'globstar': True}, {'globstar': True, 'dot': True}, {'matchbase': True, 'escsep': True}, {'icase': True, 'case': True},
                        {'globstarlong': True}):
                if cfg.get('globstarlong'):
                    # the globstar variants written `***`: the kind that passes through symlinked directories, at any depth
                    if not any(isinstance(x, str) for x in segs):
                        continue
                    segs = tuple(A.GSL if x == A.GS else x for x in segs)
                elif any(isinstance(x, str) for x in segs) and not cfg.get('globstar'):
                    continue
                if cfg.get('escsep') and len(segs) < 2:
                    continue
                for trail in (False, True) if len(segs) <= 2 else (False,):
                    pp = A.PathPat(False, segs, trail, 1)
                    n += 1
                    r = compare(root, [pp], None, dict(cfg), ['root_dir', 'cwd', 'dir_fd'][n % 3], out, armed, spec)
                    if r is not None and r[0] and len(segs) >= 2:
                        out.nontrivial((desc['tree'], A.render_path(pp), tuple(sorted(cfg))))
        # ordered pairs of variants of one entry that lies below a symlinked directory: whichever pattern of a list accepts the
        # path decides, in any order (`**/a` is refused at the link, `ld/a` accepts)
        below = []
        for p, _d, _l in model.all_entries(follow=True, max_depth=4):
            comps = p.split('/')
            if '..' not in comps and len(comps) >= 2 and any(C06.link_flags(root, comps)[:-1]):
                below.append(p)
        npairs = 0
        for p in below[:12]:
            vs = list(FC.literal_variants([p]))
            pairs = [(a, b) for a in vs for b in vs if a != b]
            step = max(1, len(pairs) // 60)
            for a, b in pairs[::step]:
                cfg = {'globstar': True}
                npairs += 1
                r = compare(root, [A.PathPat(False, a, False, 1), A.PathPat(False, b, False, 1)], None, cfg, ['root_dir', 'cwd', 'dir_fd'][npairs % 3],
                            out, armed, spec)
                if r is not None and r[0]:
                    out.nontrivial((desc['tree'], 'pair', A.render_path(A.PathPat(False, a, False, 1)), A.render_path(A.PathPat(False, b, False, 1))))
    out.sample({'stream': 'literal', 'tree_index': desc['tree'], 'entries': len(entries), 'cases': n, 'ordered_pairs_below_links': npairs})
    return out


def run_mutate(desc):
    """Histories: the SAME root directory is mutated between calls (a symlink becomes a real directory and back, entries
    appear and disappear) and glob() vs globmatch(REALPATH) is compared after every step, in one process.  Anything remembered
    about the file system from an earlier call shows up as a disagreement."""
    import shutil
    from hypothesis import given, strategies as st, seed
    out = Outcome()
    armed = desc['armed']
    base = [('d', 'b'), ('d', 'real'), ('f', 'real/f'), ('d', 'real/sub'), ('f', 'real/sub/f'), ('f', 'b/f'), ('f', 'f')]
    pats = [A.PathPat(False, (A.GS, A.lits('f')), False, 1), A.PathPat(False, (A.lits('b'), A.GS, A.lits('f')), False, 1),
            A.PathPat(False, (A.GS,), False, 1), A.PathPat(False, ((A.STAR,), A.GS, (A.STAR,)), False, 1),
            A.PathPat(False, (A.GS, A.lits('link'), A.GS), False, 1)]
    steps = st.lists(st.tuples(st.sampled_from(['link->real', 'link=dir', 'link=file', 'nolink', 'sub->link', 'sub=dir']),
                               st.integers(0, len(pats) - 1), st.sampled_from(['root_dir', 'cwd', 'dir_fd']),
                               st.sampled_from([{'globstar': True}, {'globstar': True, 'dot': True}, {'globstarlong': True}, {'globstar': True, 'follow': True}])),
                     min_size=2, max_size=8)

    @seed(desc['seed'])
    @util.hyp_settings(desc['n'], shrink=False)
    @given(steps)
    def test(history):
        with FC.built_tree(base) as (root, _r):
            hist = []
            for op, pi, how, cfg in history:
                link = os.path.join(root, 'b', 'link')
                sub = os.path.join(root, 'real', 'sub')
                if op.startswith('link') or op == 'nolink':
                    if os.path.islink(link) or os.path.isfile(link):
                        os.unlink(link)
                    elif os.path.isdir(link):
                        shutil.rmtree(link)
                    if op == 'link->real':
                        os.symlink('../real', link)
                    elif op == 'link=dir':
                        os.makedirs(os.path.join(link, 'sub'))
                        open(os.path.join(link, 'f'), 'w').close()
                        open(os.path.join(link, 'sub', 'f'), 'w').close()
                    elif op == 'link=file':
                        open(link, 'w').close()
                else:
                    if os.path.islink(sub):
                        os.unlink(sub)
                    elif os.path.isdir(sub):
                        shutil.rmtree(sub)
                    if op == 'sub->link':
                        os.symlink('../b', sub)
                    else:
                        os.makedirs(sub)
                        open(os.path.join(sub, 'f'), 'w').close()
                hist.append([op, A.render_path(pats[pi]), how, cfg])
                spec_now = [('note', 'mutated tree: see history')]
                out.stats['mutate_steps'] += 1
                before = len(out.violations)
                r = compare(root, [pats[pi]], None, dict(cfg), how, out, armed, [])
                if len(out.violations) > before:
                    for i, (sz, b, c) in enumerate(out.violations):
                        if c.get('tree') == []:
                            c['history'] = list(hist)
                            c['tree'] = base
                    return
            out.nontrivial(tuple(map(str, hist)))
    test()
    out.sample({'stream': 'mutate', 'base_tree': [e[1] for e in base], 'operations': ['link->real', 'link=dir', 'link=file', 'nolink', 'sub->link', 'sub=dir']})
    return out


def replay(case):
    util.clear_caches()
    if case.get('kind') == 'raw':
        o = run_raw()
        mine = [v[2] for v in o.violations if v[2].get('pattern') == case['pattern'] and v[2].get('flags') == case['flags']]
        return (not mine), mine[:2]
    spec = [tuple(e) for e in case['tree']]
    pps = [A.from_json(a) for a in case['asts']]
    excl = [A.from_json(a) for a in case['excl_asts']] if case.get('excl_asts') else None
    cfg = case['cfg']
    o = Outcome()
    with FC.built_tree(spec, follow_safe=FC.follows_links(cfg)) as (root, _r):
        compare(root, pps, excl, cfg, case.get('how', 'root_dir'), o, [], spec)
    return (not o.violations), [dict(name=v[2].get('name'), glob_only=v[2].get('glob_only'), problem=v[2].get('problem')) for v in o.violations]
