"""C17 - case and platform flags select a consistent matching mode (metamorphic relations on wcmatch itself)."""
import itertools

import os
from ..runner import Outcome, HarnessError
from .. import ast as A, ref as R, names as N, lang, util
from ..util import F, G
from . import c02

PROPERTY = 'C17'
RULE = ('case = (pattern AST, subset of {CASE, IGNORECASE, FORCEWIN, FORCEUNIX}, fnmatch|glob mode, str|bytes, name set); patterns: '
        'every AST of token budget <= 3 over a mixed-case alphabet (a B . ? * [a-c] [!B]) in fnmatch mode, 1-2 segment path patterns, '
        'Hypothesis ASTs, and drive / UNC / escaped-backslash forms; names: all strings up to length 3-4 over the minterm '
        'representatives with their ASCII case partners and both separator spellings; relations checked with wcmatch on both '
        'sides: case closure in insensitive mode, exact spelling of literals in sensitive mode, CASE|IGNORECASE == CASE, '
        'FORCEWIN|FORCEUNIX == neither, separator swap invariance and `\\\\\\\\` == `/` under FORCEWIN, FORCEWIN == FORCEUNIX|IGNORECASE '
        'after separator normalisation for backslash-free patterns, drive/UNC prefixes literal and case-insensitive; '
        'evaluations = pairs of calls compared; non-trivial = some name differs from a pattern literal only in case or separator '
        'spelling and the pattern accepts something')
ASSUMPTIONS = ['ASCII case only', 'Windows behaviour is reached through FORCEWIN (no REALPATH)']

ATOMS = (A.lit('a'), A.lit('B'), A.lit('.'), A.ANY, A.STAR, A.mkset(False, ('r', 'a', 'c')), A.mkset(True, ('c', 'B')),
         A.mkset(False, ('c', '\\')), A.mkset(False, ('c', 'a'), ('c', '\\')))
FLAGSETS = [tuple(n for j, n in enumerate(['CASE', 'IGNORECASE', 'FORCEWIN', 'FORCEUNIX']) if i >> j & 1) for i in range(16)]


def insensitive(names):
    if 'CASE' in names:
        return False
    win = 'FORCEWIN' in names and 'FORCEUNIX' not in names
    return 'IGNORECASE' in names or win


def is_win(names):
    return 'FORCEWIN' in names and 'FORCEUNIX' not in names


def swap_ascii(s):
    return ''.join(c.swapcase() if c < '\x80' else c for c in s)


def swap_lits(seq):
    out = []
    for n in seq:
        if n[0] == 'lit' and n[1] < '\x80':
            out.append(('lit', n[1].swapcase()))
        elif n[0] == 'ext':
            out.append(('ext', n[1], tuple(swap_lits(a) for a in n[2])))
        else:
            out.append(n)
    return tuple(out)


def accepted(mode, text, names, fl, as_bytes=False):
    if as_bytes:
        text = text.encode('latin-1')
        enc = {n.encode('latin-1'): n for n in names}
        got = (F.filter if mode == 'fn' else G.globfilter)(list(enc), text, flags=fl)
        return {enc[g] for g in got}
    return set((F.filter if mode == 'fn' else G.globfilter)(names, text, flags=fl))


def flagval(mode, names, ext=True):
    mod = F if mode == 'fn' else G
    table = util.FN_FLAGS if mode == 'fn' else util.GL_FLAGS
    return util.flags_of(names, table) | (mod.EXTMATCH if ext else 0) | mod.DOTMATCH


def looks_rooted(n):
    return n[:1] in '/\\' or n[1:2] == ':'


def check_relations(mode, obj, text, flagnames, names, out, stream, as_bytes=False, swapped_text=None):
    """All relations for one pattern under one flag subset."""
    fl = flagval(mode, flagnames)
    case = {'mode': mode, 'pattern': text, 'flags': list(flagnames), 'bytes': as_bytes, 'stream': stream,
            'ast': A.to_json(obj) if obj is not None else None}
    ins = insensitive(flagnames)
    win = is_win(flagnames)
    try:
        with util.watchdog(6):
            acc = accepted(mode, text, names, fl, as_bytes)
            out.evaluations += len(names)
            # R3: CASE wins over IGNORECASE
            if 'CASE' in flagnames and 'IGNORECASE' in flagnames:
                other = accepted(mode, text, names, flagval(mode, [n for n in flagnames if n != 'IGNORECASE']), as_bytes)
                if other != acc:
                    d = sorted(acc ^ other)[0]
                    out.violation(dict(case, relation='CASE|IGNORECASE == CASE', name=d), size=len(text), bucket=('R3', mode))
                    return
            # R4: FORCEWIN | FORCEUNIX cancel out
            if 'FORCEWIN' in flagnames and 'FORCEUNIX' in flagnames:
                other = accepted(mode, text, names, flagval(mode, [n for n in flagnames if n not in ('FORCEWIN', 'FORCEUNIX')]), as_bytes)
                if other != acc:
                    d = sorted(acc ^ other)[0]
                    out.violation(dict(case, relation='FORCEWIN|FORCEUNIX == neither', name=d), size=len(text), bucket=('R4', mode))
                    return
            # R8: a list (or SPLIT alternatives) of the pattern and its case-swapped spelling accepts exactly the union of the
            # two single patterns - under every one of the 16 flag subsets (no spelling may be dropped as a "duplicate")
            if swapped_text is not None and swapped_text != text:
                both = accepted(mode, text, names, fl, as_bytes) | accepted(mode, swapped_text, names, fl, as_bytes)
                forms = [('list', [text, swapped_text]), ('list-reversed', [swapped_text, text])]
                if '|' not in text and '|' not in swapped_text:
                    forms.append(('split', text + '|' + swapped_text))
                for label, pats in forms:
                    mod = F if mode == 'fn' else G
                    cfl = fl | (mod.SPLIT if label == 'split' else 0)
                    if as_bytes:
                        encp = pats.encode('latin-1') if isinstance(pats, str) else [x.encode('latin-1') for x in pats]
                        enc = {n.encode('latin-1'): n for n in names}
                        got = {enc[g] for g in (F.filter if mode == 'fn' else G.globfilter)(list(enc), encp, flags=cfl)}
                    else:
                        got = set((F.filter if mode == 'fn' else G.globfilter)(names, pats, flags=cfl))
                    out.evaluations += len(names)
                    if got != both:
                        d = sorted(got ^ both)[0]
                        out.violation(dict(case, relation='list of case variants == union of the single patterns (%s)' % label, name=d,
                                           swapped=swapped_text, impl=d in got), size=len(text) * 10, bucket=('R8', mode, label))
                        return
            if ins:
                # R1: closed under ASCII case change of the name ...
                for n in names:
                    for v in (swap_ascii(n), n.upper() if n.isascii() else n, n.lower() if n.isascii() else n):
                        if v in names_set(names) and (n in acc) != (v in acc):
                            out.violation(dict(case, relation='case closure (name)', name=n, variant=v, impl=[n in acc, v in acc]),
                                          size=len(text) * 10 + len(n), bucket=('R1n', mode, win))
                            return
                # ... and of literal pattern text
                if swapped_text is not None:
                    other = accepted(mode, swapped_text, names, fl, as_bytes)
                    if other != acc:
                        d = sorted(acc ^ other)[0]
                        out.violation(dict(case, relation='case closure (pattern literals)', name=d, swapped=swapped_text),
                                      size=len(text) * 10, bucket=('R1p', mode, win))
                        return
            else:
                # R2: a literal pattern accepts only its exact spelling among the case variants
                lit = literal_spelling(obj)
                if lit is not None and '/' not in lit and '\\' not in lit:
                    for n in names:
                        if n != lit and n.lower() == lit.lower() and n in acc:
                            out.violation(dict(case, relation='case-sensitive literal', name=n), size=len(text), bucket=('R2', mode))
                            return
            if win and not (mode == 'fn' and sets_distinguish_seps(obj)):
                # R5: `/` and `\` in the name are interchangeable (not judged in fnmatch mode when a bracket expression
                # contains one separator character but not the other: there they are ordinary characters)
                for n in names:
                    v = n.replace('\\', '\x00').replace('/', '\\').replace('\x00', '/')
                    if v != n and v in names_set(names) and (n in acc) != (v in acc):
                        if looks_rooted(n) or looks_rooted(v):
                            continue
                        out.violation(dict(case, relation='separator swap', name=n, variant=v, impl=[n in acc, v in acc]),
                                      size=len(text) * 10 + len(n), bucket=('R5', mode))
                        return
                # R6: equals Unix-mode matching with IGNORECASE of the name with `\` -> `/`
                if '\\' not in text and not looks_rooted(text):
                    ufl = flagval(mode, [n for n in flagnames if n not in ('FORCEWIN',)] + ['FORCEUNIX'] + ([] if 'CASE' in flagnames else ['IGNORECASE']))
                    for n in names:
                        if looks_rooted(n):
                            continue          # K10 zone: drive/UNC-looking names against relative patterns
                        u = n.replace('\\', '/')
                        b = bool((F.fnmatch if mode == 'fn' else G.globmatch)(u.encode('latin-1') if as_bytes else u,
                                                                             text.encode('latin-1') if as_bytes else text, flags=ufl))
                        out.evaluations += 1
                        if b != (n in acc):
                            out.violation(dict(case, relation='FORCEWIN == FORCEUNIX|IGNORECASE after separator normalisation', name=n,
                                               impl=n in acc, unix=b), size=len(text) * 10 + len(n), bucket=('R6', mode, b))
                            return
    except util.HarnessBudget:
        out.stats['watchdog_skipped'] += 1
        return
    except UnicodeEncodeError:
        return
    except Exception as e:
        out.stats['exception_skipped:' + type(e).__name__] += 1
        return
    if acc and (ins or win):
        out.nontrivial((mode, text, tuple(flagnames), as_bytes))


_NS = {}


def names_set(names):
    k = id(names)
    r = _NS.get(k)
    if r is None or r[0] is not names:
        _NS.clear()
        r = (names, set(names))
        _NS[k] = r
    return r[1]


def sets_distinguish_seps(obj):
    if obj is None or isinstance(obj, A.PathPat):
        return obj is None
    for n in A.walk(obj):
        if n[0] == 'set':
            # an explicitly written (escaped) backslash inside the brackets is "an escaped backslash in the pattern": it is a
            # separator and stands for both spellings; only ranges / classes that happen to contain one of the two are undecided
            rest = ('set', False, tuple(it for it in n[2] if it != ('c', '\\')))
            if R.set_has(rest, '/') != R.set_has(rest, '\\'):
                return True
    return False


def literal_spelling(obj):
    if isinstance(obj, A.PathPat):
        return None
    if A.is_literal(obj):
        return A.literal_text(obj)
    return None


def name_pool(seqs, mode, maxlen, with_bslash=True):
    alpha, _c = N.representatives(seqs, icase=True, extra='.', cap=4)
    extra = ''
    if mode == 'gl':
        extra = '/\\' if with_bslash else '/'
    elif with_bslash:
        extra = '/\\'
    return list(N.all_names(alpha + extra, maxlen))


def shards(tier, seed, scale=1.0):
    out = []
    if tier == 'quick':
        S, budget, hyp_n = 16, 2, 300
    else:
        S, budget, hyp_n = 64, 3, 800
    for s in range(S):
        out.append({'name': 'fn-enum-%d' % s, 'kind': 'fn-enum', 'shard': s, 'of': S, 'budget': budget + 1})
        out.append({'name': 'path-enum-%d' % s, 'kind': 'path-enum', 'shard': s, 'of': S, 'budget': budget})
    for s in range(16):
        out.append({'name': 'hyp-%d' % s, 'kind': 'hyp', 'seed': seed * 1000 + s, 'n': max(8, int(hyp_n * scale))})
    out.append({'name': 'drives', 'kind': 'drives'})
    out.append({'name': 'fs', 'kind': 'fs'})
    return out


def run_shard(desc):
    k = desc['kind']
    if k == 'fs':
        return run_fs(desc)
    if k == 'fn-enum':
        return run_fn_enum(desc)
    if k == 'path-enum':
        return run_path_enum(desc)
    if k == 'hyp':
        return run_hyp(desc)
    if k == 'drives':
        o = run_drives(desc)
        o.merge(run_letterless())
        o.merge(run_neg_sep())
        o.merge(run_dot_segments())
        return o
    raise HarnessError(k)


def run_neg_sep():
    """`!(...)` directly before a separator: the group ends at the separator however it is written (`/`, an escaped backslash, runs
    of both) under Windows rules."""
    out = Outcome()
    out.exhaustive = True
    names = [a + sep + b for a in ('a', 'A', 'b', 'ab', 'src', 'build', 'x') for sep in ('/', '\\', '//') for b in ('b', 'B', 'a', 'm.py', 'x')] + \
        ['src/build/m.py', 'src\\build\\m.py', 'src/x/m.py', 'src\\x\\m.py', 'a', 'b', 'a/b/c', 'x\\a\\b']
    for text in ('!(a)/b', 'src/!(build)/*.py', '!(a|B)/?', '*/!(a)', '!(a)/!(b)', '@(!(a))/b', '!(src)/x', '?(a)!(b)/m.py'):
        for fnames in (['FORCEWIN'], ['FORCEWIN', 'CASE'], ['FORCEWIN', 'GLOBSTAR'], ['FORCEWIN', 'DOTGLOB']):
            fl = flagval('gl', fnames)
            a = accepted('gl', text, names, fl)
            for form in (text.replace('/', '\\\\'), text.replace('/', '\\\\/'), text.replace('/', '/\\\\'), text.replace('/', '//')):
                b = accepted('gl', form, names, fl)
                out.evaluations += len(names)
                if a != b:
                    d = sorted(a ^ b)[0]
                    out.violation({'mode': 'gl', 'pattern': text, 'escaped_backslash_form': form, 'flags': fnames, 'name': d,
                                   'relation': 'escaped backslash in the pattern is a separator'}, bucket=('R5p-neg', text))
                    break
            if a:
                out.nontrivial(('neg-sep', text, tuple(fnames)))
    return out


def run_dot_segments():
    """Segment patterns that start with a written dot under NODOTDIR / DOTGLOB: whether a `.` or `..` segment of the name ends with `/` or
    with `\\` makes no difference under Windows rules (relations R5 and R6)."""
    out = Outcome()
    out.exhaustive = True
    dot, x = A.lit('.'), A.lits('x')
    pps = [A.PathPat(False, ((dot, A.STAR), x), False, 1), A.PathPat(False, ((dot, A.ANY), x), False, 1), A.PathPat(False, (A.lits('a'), (dot, A.STAR), x), False, 1),
           A.PathPat(False, ((dot, A.STAR),), False, 1), A.PathPat(False, ((A.STAR,), (dot, A.STAR)), False, 1), A.PathPat(False, ((dot, A.mkset(False, ('c', '.'))), x), False, 1),
           A.PathPat(False, ((dot, A.STAR), (dot, A.STAR)), False, 1), A.PathPat(False, ((dot, A.STAR),), True, 1)]
    firsts = ['..', '.', '.a', 'a', '...', '.A']
    names = sorted({f + s_ + r for f in firsts for s_ in ('/', '\\') for r in ('x', 'X', '..', '.', '.a', '')} | set(firsts) |
                   {'a' + s1 + f + s2 + 'x' for f in firsts[:3] for s1 in ('/', '\\') for s2 in ('/', '\\')})
    for pp in pps:
        text = A.render_path(pp)
        for extra in (('NODOTDIR',), ('NODOTDIR', 'DOTGLOB'), ('DOTGLOB',), ()):
            for j in (4, 5, 6, 0, 2):
                check_relations('gl', pp, text, FLAGSETS[j] + extra, names, out, 'dot-segments', as_bytes=j == 5, swapped_text=None)
    return out


def run_letterless():
    """Patterns without a single letter whose ranges still cover letters of one case only (`[0-_]` holds A-Z, `[_-~]` holds a-z): case
    folding is a property of the mode, not of what the pattern text looks like."""
    out = Outcome()
    out.exhaustive = True
    up, lo = A.mkset(False, ('r', '0', '_')), A.mkset(False, ('r', '_', '~'))
    nup, nlo = A.mkset(True, ('r', '0', '_')), A.mkset(True, ('r', '_', '~'))
    seqs = [(up,), (lo,), (nup,), (nlo,), (up, A.STAR), (A.ANY, lo), (up, lo), (A.lit('1'), up), (lo, A.lit('.'), up), (('ext', '@', ((up,), (A.lit('1'),))),),
            (('ext', '+', ((lo,),)),), (A.mkset(False, ('r', '0', '_'), ('c', '~')),)]
    letters = ['q', 'Q', 'a', 'A', 'z', 'Z', '1', '_', '~', '^', '`', '.']
    names = sorted({x for x in letters} | {x + y for x in letters for y in letters[:6]} | {'1' + x for x in letters} | {x + '.' + y for x in 'qQ' for y in 'aA'})
    for seq in seqs:
        text = A.render(seq)
        for j in range(16):
            for mode in ('fn', 'gl'):
                check_relations(mode, seq if mode == 'fn' else A.PathPat(False, (seq,), False, 1), text, FLAGSETS[j], names, out, 'letterless',
                                as_bytes=j % 3 == 0, swapped_text=None)
        if len(seq) == 1:
            # ... and as a path of two segments
            pp = A.PathPat(False, (seq, seq), False, 1)
            pnames = [a + '/' + b for a in letters[:8] for b in letters[:8]] + [a + '\\' + b for a in letters[:4] for b in letters[:4]]
            for j in range(16):
                check_relations('gl', pp, A.render_path(pp), FLAGSETS[j], pnames, out, 'letterless-path', as_bytes=j % 3 == 1, swapped_text=None)
    return out


def run_fs(desc):
    """glob() on a tree whose entries collide by case: in case-insensitive mode the result does not depend on how the literal
    text of the pattern is cased (every case variant of a pattern returns the same set, a superset of the case-sensitive result);
    in case-sensitive mode a variant returns exactly the entries spelled that way."""
    from .. import trees as T, fscommon as FC
    out = Outcome()
    out.exhaustive = True
    spec = T.CATALOGUE[12] + [('f', 'Data/x.txt'), ('f', 'data/y.txt'), ('f', 'DATA/z.TXT'), ('f', 'notes'), ('f', 'Notes'), ('d', 'data/Sub'), ('f', 'data/Sub/a'),
                              ('d', 'Data/sub'), ('f', 'Data/sub/a')]
    bases = ['data/*.txt', 'data/*', 'notes', 'data/sub/a', 'top/pkg/src/lib/*', '*/pkg/a', 'data', 'top/pkg/src/x', '[d]ata/*.txt', 'd*/y.txt',
             'data/**', '**/mod.py', 'data/y.txt', 'top/*/src/lib/mod.py']

    def variants(t):
        vs = {t, t.upper(), t.lower(), t.title(), t.swapcase(), ''.join(c.upper() if i % 2 else c.lower() for i, c in enumerate(t))}
        return sorted(vs)
    with FC.built_tree(spec) as (root, _r):
        on_disk = set()
        for b_, ds_, fs_ in os.walk(root):
            for n_ in ds_ + fs_:
                on_disk.add(os.path.relpath(os.path.join(b_, n_), root))
        for base in bases:
            for extra in (0, G.GLOBSTAR, G.GLOBSTAR | G.DOTGLOB, G.MARK):
                res = {}
                for v in variants(base):
                    res[v] = (set(G.glob(v, flags=G.IGNORECASE | extra, root_dir=root)), set(G.glob(v, flags=G.CASE | extra, root_dir=root)),
                              set(str(p_.relative_to(root)) for p_ in util.WP.Path(root).glob(v, flags=G.IGNORECASE | extra)))
                    out.evaluations += 3
                first = variants(base)[0]
                union_cs = set().union(*[r[1] for r in res.values()])
                for v, (ri, rc, rp) in res.items():
                    strip = lambda xs: {x.rstrip('/') for x in xs}
                    if ri != res[first][0]:
                        d = sorted(ri ^ res[first][0])[0]
                        out.violation({'mode': 'fs', 'pattern': v, 'other_spelling': first, 'flags': ['IGNORECASE'], 'extra_flags': extra, 'name': d,
                                       'relation': 'in case-insensitive mode the glob() result does not depend on the case of the pattern text'},
                                      bucket=('fs-icase', base))
                        break
                    if not rc <= ri:
                        d = sorted(rc - ri)[0]
                        out.violation({'mode': 'fs', 'pattern': v, 'flags': ['IGNORECASE'], 'extra_flags': extra, 'name': d,
                                       'relation': 'the case-insensitive result contains the case-sensitive one'}, bucket=('fs-subset', base))
                        break
                    if strip(rp) != strip(ri):
                        d = sorted(strip(rp) ^ strip(ri))[0]
                        out.violation({'mode': 'fs', 'pattern': v, 'flags': ['IGNORECASE'], 'extra_flags': extra, 'name': d,
                                       'relation': 'Path.glob agrees with glob.glob in case-insensitive mode'}, bucket=('fs-pathlib', base))
                        break
                    bad = [x for x in ri if x.rstrip('/') not in on_disk]
                    if bad:
                        out.violation({'mode': 'fs', 'pattern': v, 'flags': ['IGNORECASE'], 'extra_flags': extra, 'name': bad[0],
                                       'relation': 'results are spelled as on disk'}, bucket=('fs-spelling', base))
                        break
                else:
                    if not union_cs <= res[first][0]:
                        out.violation({'mode': 'fs', 'pattern': base, 'flags': ['IGNORECASE'], 'extra_flags': extra, 'name': sorted(union_cs - res[first][0])[0],
                                       'relation': 'the case-insensitive result contains every case-sensitive variant result'}, bucket=('fs-union', base))
                if len(res[first][0]) > len(res[first][1]):
                    out.nontrivial(('fs', base, extra))
        # the platform flags have no say in a crawl of this host's file system: FORCEWIN|FORCEUNIX cancel out, a lone FORCEWIN is
        # dropped - for inclusion and exclusion patterns alike
        for base in ('*', '*/*', 'data/*', '**'):
            for excl in ('DATA*', 'Notes', 'TOP/*', 'D*/X*', 'nOTES'):
                for how in ('exclude=', 'inline'):
                    for extra in (G.GLOBSTAR, G.GLOBSTAR | G.IGNORECASE, G.GLOBSTAR | G.CASE):
                        def run(fl_):
                            if how == 'inline':
                                return set(G.glob([base, '!' + excl], flags=fl_ | G.NEGATE, root_dir=root))
                            return set(G.glob(base, flags=fl_, exclude=excl, root_dir=root))
                        r0 = run(extra)
                        out.evaluations += 3
                        for label, fl_ in (('FORCEWIN|FORCEUNIX', extra | G.FORCEWIN | G.FORCEUNIX), ('FORCEWIN', extra | G.FORCEWIN), ('FORCEUNIX', extra | G.FORCEUNIX)):
                            r1 = run(fl_)
                            if r1 != r0:
                                d = sorted(r1 ^ r0)[0]
                                out.violation({'mode': 'fs', 'pattern': base, 'exclusion': excl, 'delivery': how, 'flags': [label], 'extra_flags': extra, 'name': d,
                                               'relation': 'platform flags do not change a crawl of this host (inclusions and exclusions)'},
                                              bucket=('fs-platform', label, how))
                                break
                out.nontrivial(('fs-platform', base, excl))
    out.sample({'stream': 'fs', 'patterns': bases, 'variants_each': 6})
    return out


def run_fn_enum(desc):
    out = Outcome()
    out.exhaustive = True
    s, S = desc['shard'], desc['of']
    idx = 0
    # (in fnmatch mode `/` is not special for wildcards, but under Windows rules a written `/` still stands for either separator -
    # at top level and inside groups alike)
    for seq in A.enum_upto(desc['budget'], ATOMS + (A.lit('/'),), kinds='?*+@', max_depth=1):
        idx += 1
        if idx % S != s:
            continue
        text = A.render(seq)
        names = name_pool([seq], 'fn', 3, with_bslash=idx % 2 == 0 or '/' in text)
        sw = A.render(swap_lits(seq))
        for j in range(16):
            check_relations('fn', seq, text, FLAGSETS[j], names, out, 'fn-enum', as_bytes=(idx + j) % 5 == 0, swapped_text=sw)
        if idx % 499 == s:
            out.sample({'pattern': text, 'names': len(names), 'stream': 'fn-enum'})
    return out


def run_path_enum(desc):
    out = Outcome()
    out.exhaustive = True
    s, S = desc['shard'], desc['of']
    idx = 0
    atoms = (A.lit('a'), A.lit('B'), A.ANY, A.STAR, A.mkset(False, ('r', 'a', 'c')))
    for segs in c02.enum_pathpats(desc['budget'], atoms=atoms, kinds='@*'):
        idx += 1
        if idx % S != s:
            continue
        if any(isinstance(x, str) for x in segs):
            continue
        pp = A.PathPat(False, segs, idx % 3 == 0, 1)
        text = A.render_path(pp)
        seqs = list(segs)
        names = name_pool(seqs, 'gl', 4)
        sw = A.render_path(pp._replace(segs=tuple(swap_lits(x) for x in segs)))
        for j in (0, 1, 2, 3, 4, 5, 6, 8, 12, 15):
            check_relations('gl', pp, text, FLAGSETS[j], names, out, 'path-enum', as_bytes=(idx + j) % 5 == 0, swapped_text=sw)
        if idx % 4 == 2:
            # NODIR refuses names that end in a separator - in either spelling under Windows rules; every relation holds with it
            for j in (0, 4, 5, 6, 12):
                check_relations('gl', pp, text, FLAGSETS[j] + ('NODIR',), names, out, 'path-enum-nodir', as_bytes=(idx + j) % 5 == 0, swapped_text=sw)
        if len(segs) >= 2 and idx % 3 == 1:
            # the same pattern with every separator doubled (and tripled): runs of separators mean one, under either convention
            for dup in (2, 3):
                pp2 = pp._replace(dup=dup)
                text2 = A.render_path(pp2)
                sw2 = A.render_path(pp2._replace(segs=tuple(swap_lits(x) for x in segs)))
                for j in (0, 1, 2, 4, 8, 12):
                    check_relations('gl', pp2, text2, FLAGSETS[j], names, out, 'path-enum-dup', as_bytes=(idx + j) % 5 == 0, swapped_text=sw2)
                fl = flagval('gl', ['FORCEWIN'])
                a = accepted('gl', text, names, fl)
                b = accepted('gl', text2, names, fl)
                out.evaluations += len(names)
                if a != b:
                    d = sorted(a ^ b)[0]
                    out.violation({'mode': 'gl', 'pattern': text, 'doubled_separator_form': text2, 'flags': ['FORCEWIN'], 'name': d,
                                   'relation': 'a run of separators in the pattern means one separator'}, bucket=('R5d',))
        # `\\` in the pattern is a separator under FORCEWIN
        if len(segs) >= 2:
            bs = text.replace('/', '\\\\')
            deep = names + ['x/' + n for n in names[:40]] + ['x\\y\\' + n for n in names[:20]]
            for fnames in (['FORCEWIN'], ['FORCEWIN', 'MATCHBASE'], ['FORCEWIN', 'MATCHBASE', 'GLOBSTAR'], ['FORCEWIN', 'CASE']):
                # (with MATCHBASE: a pattern that contains a separator, however it is spelled, is not a bare base name)
                fl = flagval('gl', fnames)
                a = accepted('gl', text, deep, fl)
                # every separator as an escaped backslash; as an escaped backslash followed by a slash and the reverse (a run of two)
                bad = False
                for form in (bs, text.replace('/', '\\\\/'), text.replace('/', '/\\\\')):
                    b = accepted('gl', form, deep, fl)
                    out.evaluations += len(deep)
                    if a != b:
                        d = sorted(a ^ b)[0]
                        out.violation({'mode': 'gl', 'pattern': text, 'escaped_backslash_form': form, 'flags': fnames, 'name': d,
                                       'relation': 'escaped backslash in the pattern is a separator'}, bucket=('R5p', len(fnames)))
                        bad = True
                        break
                if bad:
                    break
        if idx % 499 == s:
            out.sample({'pattern': text, 'names': len(names), 'stream': 'path-enum'})
    return out


def run_hyp(desc):
    from hypothesis import given, strategies as st, seed
    out = Outcome()
    seq = A.st_seq(max_budget=6, max_depth=2, max_alts=3, alphabet='abABzZ.1_-' + '*?[]()|!+@', posix=True)

    @seed(desc['seed'])
    @util.hyp_settings(desc['n'], shrink=False)
    @given(st.lists(seq, min_size=1, max_size=3), st.booleans(), st.integers(0, 15), st.booleans(), st.data())
    def test(seqs, pathmode, fi, as_bytes, data):
        seqs = [s_ for s_ in seqs if s_]
        if not seqs:
            return
        draw_int = lambda lo, hi: data.draw(st.integers(lo, hi))
        if pathmode:
            pp = A.PathPat(False, tuple(seqs), False, 1)
            text = A.render_path(pp)
            sw = A.render_path(pp._replace(segs=tuple(swap_lits(x) for x in seqs)))
            obj = pp
            mode = 'gl'
        else:
            seqs = seqs[:1]
            text = A.render(seqs[0])
            sw = A.render(swap_lits(seqs[0]))
            obj = seqs[0]
            mode = 'fn'
        names = set(name_pool(seqs, mode, 3))
        for s_ in seqs:
            for g in N.guided_names(s_, draw_int, alphabet='abAB.zZ1', want=2):
                names |= {g, g.swapcase(), g.upper(), g.lower()}
                if pathmode:
                    names |= {'x/' + g, 'X\\' + g, g + '/', g + '\\'}
        names.discard('')
        names = sorted(names)
        out.stats['hyp_cases'] += 1
        check_relations(mode, obj, text, FLAGSETS[fi], names, out, 'hyp', as_bytes=as_bytes and text.isascii() and all(n.isascii() for n in names),
                        swapped_text=sw)
        if out.stats['hyp_cases'] % 41 == 1:
            out.sample({'pattern': text, 'flags': list(FLAGSETS[fi]), 'mode': mode, 'names': len(names), 'stream': 'hyp'})
    test()
    return out


DRIVES = [
    # (pattern, names that must match under FORCEWIN, subset that must still match with CASE, names that must not match)
    ('c:/a', ['c:/a', 'C:/A', 'c:\\a', 'C:\\a', 'c:/a/'], ['c:/a', 'C:/a', 'c:\\a', 'C:\\a'], ['d:/a', 'c:a', '/a', 'c:/b', 'cc:/a', 'xc:/a']),
    ('c:/*', ['c:/a', 'C:\\x'], ['c:/a', 'C:\\x'], ['d:/a', 'c:/a/b', 'c:/']),
    ('//host/share/a', ['//host/share/a', '\\\\HOST\\Share\\A', '//host/share/a/'], ['//host/share/a', '//HOST/Share/a'],
     ['//host/other/a', '//hos/share/a', '/host/share/a']),
    ('//host/share/*', ['//host/share/a', '\\\\host\\share\\b'], ['//host/share/a', '//HOST/SHARE/b'], ['//host/share/a/b', '//host/x/a']),
    ('//?/c:/a', ['//?/c:/a', '\\\\?\\C:\\a'], ['//?/c:/a', '//?/C:/a'], ['//?/d:/a', 'c:/a']),
    ('//?/UNC/h/s/a', ['//?/UNC/h/s/a', '//?/unc/H/S/A'], ['//?/UNC/h/s/a', '//?/unc/H/S/a'], ['//?/UNC/h/t/a', '//h/s/a']),
    ('c:\\\\a', ['c:/a', 'c:\\a'], ['c:/a'], ['c:/b']),
]


def run_drives(desc):
    """Drive letters and UNC shares match only as literal, case-insensitive prefixes (also with CASE for the rest)."""
    out = Outcome()
    for pat, yes, yes_case, no in DRIVES:
        for extra in ((), ('CASE',), ('IGNORECASE',)):
            fl = util.flags_of(('FORCEWIN',) + extra, util.GL_FLAGS)
            for as_bytes in (False, True):
                cases = [(n, True) for n in (yes_case if 'CASE' in extra else yes)] + [(n, False) for n in no]
                if 'CASE' in extra and pat.endswith('a'):
                    cases.append((pat.replace('\\\\', '/')[:-1] + 'A', False))     # the rest of the path is case-sensitive
                for n, want in cases:
                    p2, n2 = (pat.encode(), n.encode()) if as_bytes else (pat, n)
                    got = bool(G.globmatch(n2, p2, flags=fl))
                    out.evaluations += 1
                    if got != want:
                        out.violation({'mode': 'drives', 'pattern': pat, 'flags': ['FORCEWIN'] + list(extra), 'name': n, 'bytes': as_bytes,
                                       'impl': got, 'want': want, 'relation': 'drive/UNC prefix is a literal, case-insensitive prefix'},
                                      bucket=('drive', pat, want))
        out.nontrivial(('drive', pat))
    # K10: a relative wildcard pattern never accepts a name that begins with a drive or UNC prefix
    armed = desc['armed']
    for pat, name in (('*/x', 'c:/x'), ('?:/x', 'c:/x'), ('*', 'c:'), ('*/*/*', '//h/s'), ('**/x', 'c:/x')):
        fl = util.flags_of(('FORCEWIN', 'GLOBSTAR'), util.GL_FLAGS)
        got = bool(G.globmatch(name, pat, flags=fl))
        out.evaluations += 1
        out.nontrivial(('k10', pat, name))
        if got:
            case = {'mode': 'drives', 'pattern': pat, 'flags': ['FORCEWIN', 'GLOBSTAR'], 'name': name, 'impl': True, 'want': False,
                    'relation': 'relative wildcard pattern vs drive/UNC name'}
            if 'K10' in armed:
                out.known_hit('K10', case)
            else:
                out.violation(case, bucket=('K10',))
    out.sample({'stream': 'drives', 'pattern': DRIVES[0][0], 'must': DRIVES[0][1], 'mustnot': DRIVES[0][2]})
    return out


def replay(case):
    util.clear_caches()
    mode = case['mode']
    if mode == 'drives':
        fl = util.flags_of(case['flags'], util.GL_FLAGS)
        p, n = case['pattern'], case['name']
        if case.get('bytes'):
            p, n = p.encode(), n.encode()
        got = bool(G.globmatch(n, p, flags=fl))
        return got == case['want'], {'impl': got}
    if 'escaped_backslash_form' in case or 'doubled_separator_form' in case:
        fl = flagval('gl', case['flags'])
        other = case.get('escaped_backslash_form', case.get('doubled_separator_form'))
        a = bool(G.globmatch(case['name'], case['pattern'], flags=fl))
        b = bool(G.globmatch(case['name'], other, flags=fl))
        return a == b, {'plain': a, 'other_spelling': b}
    o = Outcome()
    names = sorted({case['name'], case.get('variant', case['name']), swap_ascii(case['name']), case['name'].upper(), case['name'].lower()})
    obj = A.from_json(case['ast']) if case.get('ast') is not None else None
    check_relations(mode, obj, case['pattern'], tuple(case['flags']), names, o, 'replay', as_bytes=case.get('bytes', False),
                    swapped_text=case.get('swapped'))
    return (not o.violations), [v[2].get('relation') for v in o.violations]
