"""C05 - glob returns exactly the paths the pattern denotes on the real tree (reference walker + Bash 5.2)."""
import os

from ..runner import Outcome, HarnessError
from .. import ast as A, ref as R, trees as T, walker as W, fscommon as FC, findings as K, bash as B, lang, util
from ..util import G

PROPERTY = 'C05'
RULE = ('case = (tree, path pattern AST, flag configuration, api glob|iglob); trees: a 12-tree catalogue (files, nested and hidden '
        'entries, symlinks to files/directories/hidden directories/ancestors/nowhere, mixed case, metacharacter names) and Hypothesis '
        'trees of <= 12 entries; patterns: 1-4 segments of literal names that exist in the trees (incl. `.`/`..`, symlinked '
        'directories), small wildcard ASTs, extended groups, `**`/`***`, trailing and duplicate separators; configurations over '
        'GLOBSTAR, GLOBSTARLONG, FOLLOW, DOTGLOB, SCANDOTDIR, NODOTDIR, MATCHBASE, MARK, NODIR, IGNORECASE; oracle 1: reference '
        'walker over real directory listings with three-valued segment verdicts: must <= glob() <= must+may; oracle 2: Bash 5.2 '
        'pathname expansion on the shared negation-free fragment; evaluations = glob calls compared; non-trivial = >= 2 segments or '
        'a globstar, non-empty result, tree has a symlinked directory or hidden entry')
ASSUMPTIONS = [
    'reference walker wcverif/walker.py is the documented segment-by-segment meaning; the model of the tree is re-read from the real directory',
    'cyclic / nested directory symlinks are removed from the tree when the flags make `**` follow links (FOLLOW, GLOBSTARLONG)',
    'Bash comparison: a difference counts only when the reference model does not side with wcmatch (Bash has quirks of its own, e.g. `*?+(*)` vs "a"); patterns with at least one magic segment, no negation, no empty alternative, no `***`; result paths that cross a symlinked directory are removed from both sides; duplicate separators and the `dir/**` trailing slash are normalised',
]

CFG_KEYS = ['globstar', 'globstarlong', 'follow', 'dot', 'matchbase', 'mark', 'scandotdir', 'nodotdir', 'icase', 'nodir']


def shards(tier, seed, scale=1.0):
    n = 1000 if tier == 'quick' else 12000
    nb = 150 if tier == 'quick' else 2500
    out = []
    for s in range(16):
        out.append({'name': 'walk-%d' % s, 'kind': 'walk', 'seed': seed * 1000 + s, 'n': max(10, int(n * scale))})
    for s in range(8):
        out.append({'name': 'bash-%d' % s, 'kind': 'bash', 'seed': seed * 1000 + 100 + s, 'n': max(6, int(nb * scale))})
    for ti in range(len(T.CATALOGUE)):
        out.append({'name': 'literal-%d' % ti, 'kind': 'literal', 'tree': ti})
    return out


def run_shard(desc):
    if desc['kind'] == 'walk':
        return run_walk(desc)
    if desc['kind'] == 'bash':
        return run_bash(desc)
    if desc['kind'] == 'literal':
        return run_literal(desc)
    raise HarnessError(desc['kind'])


def k18_shape(pp, model):
    """Literal first segment that exists but is not a directory, followed only by globstar segment(s)."""
    if len(pp.segs) < 2 or isinstance(pp.segs[0], str) or not A.is_literal(pp.segs[0]):
        return False
    if not all(isinstance(s, str) for s in pp.segs[1:]):
        return False
    first = A.literal_text(pp.segs[0])
    return model.lexists(first) and not model.isdir(first)


def compare(root, pp, cfg, api, out, armed, stream='walk'):
    # cfg 'variant': equivalent spellings (bit 8: every literal dot written `\\.`, so a `..` segment is no longer plain text for the crawler)
    text = A.render_path(pp, True, sep='\\/' if cfg.get('escsep') else '/', variant=cfg.get('variant', 0))
    fl = FC.cfg_flags(cfg)
    model = T.Model(root)
    case = {'tree': None, 'ast': A.to_json(pp), 'pattern': text, 'cfg': cfg, 'api': api, 'stream': stream}
    try:
        with util.watchdog(8), util.ScandirCounter(6000):
            if api == 0:
                res = G.glob(text, flags=fl, root_dir=root)
            elif api == 1:
                res = list(G.iglob(text, flags=fl, root_dir=root))
            elif api == 2:
                # the pattern as the second element of a list whose first element is an absolute pattern that matches nothing:
                # what a pattern denotes does not depend on the patterns that stand before it
                res = G.glob([root + '/zz_no_such_entry', text], flags=fl, root_dir=root)
            elif api == 4:
                # bytes pattern with the root given as a directory descriptor (scandir yields str names there)
                fd_ = os.open(root, os.O_RDONLY)
                try:
                    res = [os.fsdecode(x) for x in G.glob(os.fsencode(text), flags=fl, dir_fd=fd_)]
                finally:
                    os.close(fd_)
            elif api == 5:
                # the root as a descriptor of the parent directory plus a relative root_dir
                fd_ = os.open(os.path.dirname(root), os.O_RDONLY)
                try:
                    res = G.glob(text, flags=fl, dir_fd=fd_, root_dir=os.path.basename(root))
                finally:
                    os.close(fd_)
            else:
                # ... nor on a pattern before it that lists the same directories in another way (`*`, then the pattern): the
                # result is judged against the union of the two reference results
                res = G.glob(['*', text], flags=fl, root_dir=root)
        ref, undecided = W.ref_glob(model, pp, FC.walker_opts(cfg))
        if api == 3:
            ref = dict(ref)
            ref2, und2 = W.ref_glob(model, A.PathPat(False, ((A.STAR,),), False, 1), FC.walker_opts(cfg))
            undecided = undecided or und2
            for p_, v_ in ref2.items():
                if ref.get(p_) != R.MUST:
                    ref[p_] = v_
    except util.HarnessBudget:
        out.stats['budget_skipped'] += 1
        return None
    got = set(W.norm_dup(r) for r in res)
    must = {p for p, v in ref.items() if v == R.MUST}
    may = set(ref)
    out.evaluations += 1
    kw = FC.ref_kwargs(cfg)
    problems = []
    if not undecided:
        for p in sorted(must - got):
            problems.append((p, False, R.MUST))
    for p in sorted(got - may):
        problems.append((p, True, R.MUSTNOT))
    for p, impl, v in problems:
        if api == 3 and impl and R.path_verdict(A.PathPat(False, ((A.STAR,),), False, 1), W.strip_sep(p), **kw) != R.MUSTNOT:
            continue          # brought in by the `*` that stands first, and the language allows it there
        if undecided and impl:
            # MATCHBASE / leading globstar zone: only judged through the language reference
            if R.path_verdict(pp, W.strip_sep(p), **kw) != R.MUSTNOT:
                continue
        ids = K.path_classes(pp, W.strip_sep(p), kw, impl, v, text)
        if impl and k18_shape(pp, model) and p.rstrip('/') == A.literal_text(pp.segs[0]):
            ids.add('K18')
        hit = sorted(ids & set(armed))
        c = dict(case, name=p, impl=impl, verdict=v, result=sorted(got)[:12])
        if hit:
            out.known_hit(hit[0], c)
        else:
            out.violation(c, size=len(text) * 10 + len(p), bucket=('walk', v, tuple(sorted(ids)), len(pp.segs)))
        break
    return got, ref


def run_walk(desc):
    from hypothesis import given, strategies as st, seed
    out = Outcome()
    armed = desc['armed']

    @seed(desc['seed'])
    @util.hyp_settings(desc['n'], shrink=False)
    @given(FC.st_case(), FC.st_cfg(CFG_KEYS), st.integers(0, 5))
    def test(sp, cfg, api):
        spec, pp = sp
        follow = FC.follows_links(cfg)
        if (len(A.render_path(pp)) + api) % 4 == 0:
            cfg = dict(cfg, variant=8 + (len(spec) % 2) * 3)
            out.stats['alternative_spellings'] += 1
        elif (len(A.render_path(pp)) + api) % 4 == 1 and len(pp.segs) > 1:
            # every separator written escaped: the crawler splits there all the same
            cfg = dict(cfg, escsep=True)
            out.stats['escaped_separators'] += 1
        with FC.built_tree(spec, follow_safe=follow) as (root, removed):
            out.stats['cases'] += 1
            out.stats['links_removed_for_follow'] += removed
            r = compare(root, pp, cfg, api, out, armed)
            if r is None:
                return
            got, ref = r
            has_link_or_hidden = any(e[0] == 'l' or os.path.basename(e[1]).startswith('.') for e in spec)
            out.stats['trees_with_symlink'] += any(e[0] == 'l' for e in spec)
            out.stats['results_nonempty'] += bool(got)
            if (len(pp.segs) >= 2 or any(isinstance(s, str) for s in pp.segs)) and got and has_link_or_hidden:
                out.nontrivial((tuple(map(tuple, spec)), A.render_path(pp), tuple(sorted(cfg))))
            if out.stats['cases'] % 41 == 1:
                out.sample({'tree': [e[1] + ('->' + e[2] if e[0] == 'l' else '/' if e[0] == 'd' else '') for e in spec],
                            'pattern': A.render_path(pp), 'cfg': cfg, 'result': sorted(got)[:8]})
        # record the tree in violations for replay
        for i, (sz, b, c) in enumerate(out.violations):
            if c.get('tree') is None:
                c['tree'] = [list(e) for e in spec]
    test()
    return out


def run_literal(desc):
    """Systematic sweep: for every entry path of a catalogue tree, the path itself as a pattern, with each segment's case
    swapped, and with each segment replaced by `*` or by a `**`, with and without IGNORECASE."""
    out = Outcome()
    out.exhaustive = True
    armed = desc['armed']
    spec = T.CATALOGUE[desc['tree']]
    with FC.built_tree(spec) as (root, _r):
        model = T.Model(root)
        entries = [p for p, _d, _l in model.all_entries(follow=False, max_depth=6)]
        seen = set()
        if True:
            variants = list(FC.literal_variants(entries))
            for segs in variants:
                for cfg in ({}, {'icase': True}, {'icase': True, 'globstar': True}, {'globstar': True, 'dot': True}, {'icase': True, 'mark': True}, {'icase': True, 'case': True}, {'globstar': True, 'escsep': True}):
                    for trail in (False, True) if len(segs) <= 2 else (False,):
                        key = (segs, tuple(sorted(cfg)), trail)
                        if key in seen:
                            continue
                        seen.add(key)
                        pp = A.PathPat(False, segs, trail, 1)
                        r = compare(root, pp, cfg, (0, 3, 2, 0, 4, 5)[len(seen) % 6], out, armed, stream='literal')
                        if r is not None and r[0] and len(segs) >= 2:
                            out.nontrivial((desc['tree'], A.render_path(pp), tuple(sorted(cfg))))
        for i, (sz, b, c) in enumerate(out.violations):
            if c.get('tree') is None:
                c['tree'] = [list(e) for e in spec]
    out.sample({'stream': 'literal', 'tree_index': desc['tree'], 'entries': len(entries), 'cases': len(seen)})
    return out


def crosses_symlink(root, rel):
    parts = rel.rstrip('/').split('/')
    cur = root
    for p in parts[:-1]:
        cur = os.path.join(cur, p)
        if os.path.islink(cur):
            return True
    return False


def run_bash(desc):
    from hypothesis import given, strategies as st, seed
    out = Outcome()
    armed = desc['armed']
    if not B.available():
        out.notes.append('bash not found: Bash sub-check skipped')
        out.evaluations += 1
        return out
    out.notes.append('bash ' + str(B.version()))

    @seed(desc['seed'])
    @util.hyp_settings(desc['n'], shrink=False)
    @given(FC.st_case(max_segs=3, globstarlong=False, catalogue=T.CATALOGUE[:3] + T.CATALOGUE[4:]),
           st.lists(st.sampled_from(['globstar', 'dot']), unique=True, max_size=2).map(lambda ks: {k: True for k in ks}))
    def test(sp, cfg):
        spec, pp = sp
        text = A.render_path(pp)
        if not B.in_fragment(pp) or not B.safe_text(text) or pp.dup != 1:
            return
        if any(isinstance(s, str) for s in pp.segs) and not cfg.get('globstar'):
            return
        with FC.built_tree(spec) as (root, _removed):
            try:
                with util.watchdog(10), util.ScandirCounter(6000):
                    res = G.glob(text, flags=FC.cfg_flags(cfg), root_dir=root)
                bres = B.glob(root, text, globstar=bool(cfg.get('globstar')), dotglob=bool(cfg.get('dot')))
            except util.HarnessBudget:
                out.stats['budget_skipped'] += 1
                return
            norm = lambda p: W.strip_sep(W.norm_dup(p))
            a = {norm(p) for p in res if not crosses_symlink(root, p)}
            b = {norm(p) for p in bres if not crosses_symlink(root, p)}
            # a literal `.`/`..` result spelled by Bash as './' etc. is normalised by strip_sep on both sides
            out.evaluations += 1
            out.stats['bash_cases'] += 1
            if a != b:
                kw = FC.ref_kwargs(cfg)
                diff = []
                for p in sorted(a ^ b):
                    v = R.path_verdict(pp, p, **kw)
                    if (p in a and v == R.MUST) or (p not in a and v == R.MUSTNOT):
                        # the reference sides with wcmatch: a Bash quirk (e.g. `*?+(*)` does not match 'a' in Bash although
                        # `?+(*)` does), not a disagreement about the shared language
                        out.stats['bash_quirk_reference_sides_with_wcmatch'] += 1
                        continue
                    diff.append(p)
                if not diff:
                    if a:
                        out.nontrivial((tuple(map(tuple, spec)), text, tuple(sorted(cfg)), 'bash'))
                    return
                p = diff[0]
                impl = p in a
                ids = K.path_classes(pp, p, kw, impl, R.MUSTNOT if impl else R.MUST, text)
                if impl:
                    ids |= K.bash_either_classes(pp, p, bool(cfg.get('dot')))
                model = T.Model(root)
                if impl and k18_shape(pp, model):
                    ids.add('K18')
                hit = sorted(ids & set(armed))
                c = {'tree': [list(e) for e in spec], 'ast': A.to_json(pp), 'pattern': text, 'cfg': cfg, 'name': p, 'impl': impl,
                     'wcmatch': sorted(a)[:12], 'bash': sorted(b)[:12], 'stream': 'bash'}
                if hit:
                    out.known_hit(hit[0], c)
                else:
                    out.violation(c, size=len(text) * 10, bucket=('bash', impl, tuple(sorted(ids))))
                return
            if a:
                out.nontrivial((tuple(map(tuple, spec)), text, tuple(sorted(cfg)), 'bash'))
            if out.stats['bash_cases'] % 23 == 1:
                out.sample({'pattern': text, 'cfg': cfg, 'bash': sorted(b)[:6], 'stream': 'bash'})
    test()
    return out


def replay(case):
    util.clear_caches()
    spec = [tuple(e) for e in case['tree']]
    pp = A.from_json(case['ast'])
    cfg = case['cfg']
    o = Outcome()
    if case.get('stream') == 'bash':
        with FC.built_tree(spec) as (root, _r):
            res = G.glob(case['pattern'], flags=FC.cfg_flags(cfg), root_dir=root)
            bres = B.glob(root, case['pattern'], globstar=bool(cfg.get('globstar')), dotglob=bool(cfg.get('dot')))
            norm = lambda p: W.strip_sep(W.norm_dup(p))
            a = {norm(p) for p in res if not crosses_symlink(root, p)}
            b = {norm(p) for p in bres if not crosses_symlink(root, p)}
            return a == b, {'wcmatch': sorted(a), 'bash': sorted(b)}
    with FC.built_tree(spec, follow_safe=FC.follows_links(cfg)) as (root, _r):
        compare(root, pp, cfg, case.get('api', 0), o, [])
    return (not o.violations), [dict(name=v[2].get('name'), impl=v[2].get('impl'), verdict=v[2].get('verdict')) for v in o.violations]
