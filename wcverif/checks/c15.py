"""C15 - a WcMatch object can be killed, reset and re-run with prefix-exact results."""
import os
import threading

from ..runner import Outcome, HarnessError
from .. import trees as T, fscommon as FC, util
from ..util import WM

PROPERTY = 'C15'
RULE = ('history = calls on one recording WcMatch subclass; (1) for every configuration (tree x file/exclude pattern x flags) the '
        'uninterrupted run is recorded (n hook invocations, result sequence U) and EVERY abort point k = 0..n+1 is enumerated: kill() '
        'from hook number k, from another thread released exactly at hook k, and kill between any two yielded results; also a hook '
        'that raises at every position j; (2) a Hypothesis rule-based state machine draws interleavings of match / imatch / next / '
        'kill / reset / is_aborted / drop-iterator; invariants: yielded sequence is a prefix of U, at most the file being processed '
        'is finished after kill, abort is sticky until reset, after reset the run yields U again, repeated runs are identical, '
        'on_reset once per run, the skipped counter restarts and equals visited - returned, every visited file goes to exactly one '
        'of on_match/on_skip (on_error additionally when a validation hook raised), hook return values pass through unchanged; '
        'non-trivial = the run yields >= 3 values with >= 1 skip and k is strictly inside the run; evaluations = runs executed')
ASSUMPTIONS = ['exceptions are raised only from on_validate_file / on_validate_directory / compare_file / compare_directory (what the walker guards); on_match/on_skip/on_error raising propagates and is not generated',
               'the cross-thread kill is scheduled by the harness at hook boundaries; free-running threads are not used']


class Boom(Exception):
    pass


class Rec(WM.WcMatch):
    """Records every hook invocation; can kill or raise at a given invocation number."""

    def on_init(self, **kw):
        self.log = []
        self.count = 0
        self.resets = 0
        self.kill_at = None
        self.raise_at = None
        self.at_hook = None       # callable(count) run inside every hook (used for the cross-thread schedule)
        self.skip_none = kw.get('skip_none', False)
        self.falsy = kw.get('falsy', False)      # hooks return falsy values that are not None: they must pass through
        self.match_none = kw.get('match_none', False)   # on_match returns None: whatever on_match returns is a result
        self.veto = kw.get('veto', False)        # the validation hooks turn down some files and directories
        if kw.get('kill_in_init'):
            self.kill()                          # on_init is a hook like any other: a kill() issued here holds until reset()

    def tick(self, what, *a, can_raise=False):
        self.count += 1
        self.log.append((what,) + a)
        if self.kill_at is not None and self.count == self.kill_at:
            self.kill()
        if self.at_hook is not None:
            self.at_hook(self.count)
        if can_raise and self.raise_at is not None and self.count == self.raise_at:
            raise Boom('hook %d' % self.count)

    def on_reset(self):
        self.resets += 1
        self.count = 0
        self.log = []

    def on_validate_directory(self, base, name):
        self.tick('vd', name, can_raise=True)
        return not (self.veto and sum(map(ord, os.fsdecode(name))) % 5 == 0)

    def on_validate_file(self, base, name):
        self.tick('vf', name, can_raise=True)
        return not (self.veto and sum(map(ord, os.fsdecode(name))) % 2 == 0)

    def compare_file(self, filename):
        self.tick('cf', filename, can_raise=True)
        return super().compare_file(filename)

    def compare_directory(self, directory):
        self.tick('cd', directory, can_raise=True)
        return super().compare_directory(directory)

    def on_skip(self, base, name):
        self.tick('skip', name)
        if self.falsy:
            return 0
        return None if self.skip_none else ('S', name)

    def on_error(self, base, name):
        self.tick('err', name)
        return '' if self.falsy else ('E', name)

    def on_match(self, base, name):
        self.tick('match', name)
        if self.match_none:
            return None
        return False if self.falsy else ('M', os.path.join(base, name))


CONFIGS = [
    # (file pattern, exclude pattern, flags)
    ('*', '', WM.RECURSIVE),
    ('a|b', 'e', WM.RECURSIVE | WM.HIDDEN),
    ('!a', '', WM.RECURSIVE | WM.SYMLINKS | WM.HIDDEN),
    ('', 'd', WM.RECURSIVE),
    ('*', '', 0),
    ('*.txt|a', 'd/e', WM.RECURSIVE | WM.DIRPATHNAME),
    ('**/a', '', WM.RECURSIVE | WM.FILEPATHNAME | WM.GLOBSTAR | WM.HIDDEN),
    # a file pattern whose every expansion is empty: a matcher that holds no pattern still routes every file to on_skip
    ('{,}', '', WM.RECURSIVE | WM.BRACE),
]
TREES = [T.CATALOGUE[0], T.CATALOGUE[1], T.CATALOGUE[2], T.CATALOGUE[6], T.CATALOGUE[7]]


def shards(tier, seed, scale=1.0):
    out = []
    for ti in range(len(TREES)):
        for ci in range(len(CONFIGS)):
            out.append({'name': 'abort-%d-%d' % (ti, ci), 'kind': 'abort', 'tree': ti, 'cfg': ci})
    n = 150 if tier == 'quick' else 2500
    for s in range(8):
        out.append({'name': 'machine-%d' % s, 'kind': 'machine', 'seed': seed * 1000 + s, 'n': max(5, int(n * scale))})
    return out


def run_shard(desc):
    if desc['kind'] == 'abort':
        return run_abort(desc)
    return run_machine(desc)


def file_events(log):
    """Group the hook log per visited file: name -> list of event kinds."""
    per = {}
    for ev in log:
        if ev[0] in ('vf', 'match', 'skip', 'err'):
            per.setdefault(ev[1], []).append(ev[0])
    return per


def run_abort(desc):
    out = Outcome()
    out.exhaustive = True
    spec = TREES[desc['tree']]
    fpat, epat, flags = CONFIGS[desc['cfg']]
    case = {'tree_index': desc['tree'], 'config_index': desc['cfg'], 'file_pattern': fpat, 'exclude_pattern': epat, 'flags': flags}

    def fail(problem, **kw):
        out.violation(dict(case, problem=problem, **kw), bucket=(problem,))

    with FC.built_tree(spec, follow_safe=bool(flags & WM.SYMLINKS)) as (root, _r):
        def new(**kw):
            return Rec(root, fpat, epat, flags=flags, **kw)
        w = new()
        U = w.match()
        n = w.count
        sk = w.get_skipped()
        log_full = list(w.log)
        out.evaluations += 1
        # basic accounting on the uninterrupted run
        matches = [ev for ev in log_full if ev[0] == 'match']
        skips = [ev for ev in log_full if ev[0] == 'skip']
        if sk != len(skips):
            fail('get_skipped() differs from the number of on_skip calls', skipped=sk, on_skip=len(skips))
        # every file an independent walk visits goes to exactly one of on_match / on_skip (the walk of C14's oracle)
        from . import c14 as C14
        try:
            want14, visited14 = C14.ref_walk(root, fpat, epat, flags)
        except Exception:
            want14 = visited14 = None
        if visited14 is not None:
            out.evaluations += 1
            if len(matches) + len(skips) != visited14 or len(matches) != len(want14):
                fail('the files visited are not routed one-to-one to on_match / on_skip', visited=visited14, on_match=len(matches), on_skip=len(skips),
                     expected_matches=len(want14))
        if [u for u in U if u[0] == 'M'] != [('M', os.path.join(b, nm)) for b, nm in []] and False:
            pass
        if len([u for u in U if u[0] == 'M']) != len(matches) or len([u for u in U if u[0] == 'S']) != len(skips):
            fail('hook return values do not appear one-to-one in the output')
        # re-run: identical, on_reset once per run, counter restarted
        U2 = w.match()
        out.evaluations += 1
        if U2 != U or w.get_skipped() != sk or w.resets != 2 or w.count != n:
            fail('repeated run differs', resets=w.resets, skipped=w.get_skipped())
        it = w.imatch()
        U3 = list(it)
        if U3 != U or w.resets != 3:
            fail('imatch run differs from match', resets=w.resets)
        # None from on_skip is dropped, everything else kept in position
        wn = new(skip_none=True)
        Un = wn.match()
        if Un != [u for u in U if u[0] != 'S'] or wn.get_skipped() != sk:
            fail('on_skip returning None changes more than dropping the skip values')
        # on_match is not on_skip: its return value is a result even when it is None (only on_skip / on_error values of None are dropped)
        wm_ = new(match_none=True)
        Um = wm_.match()
        want_m = [None if u[0] == 'M' else u for u in U]
        out.evaluations += 1
        if Um != want_m:
            fail('on_match returning None: the None results are not in the output, in position', got=repr(Um[:6]), want=repr(want_m[:6]))
        elif list(wm_.imatch()) != want_m:
            fail('on_match returning None: imatch differs from match')
        # falsy values that are not None (0, '', False) are values like any other: unchanged and in position
        wf = new(falsy=True)
        Uf = wf.match()
        want_f = [False if u[0] == 'M' else 0 for u in U]
        out.evaluations += 1
        if [(type(x), x) for x in Uf] != [(type(x), x) for x in want_f]:
            fail('falsy hook return values (0, False) are not passed through unchanged', got=repr(Uf[:6]), want=repr(want_f[:6]))
        for j in range(1, n + 1):
            if log_full[j - 1][0] not in ('vf', 'cf', 'vd', 'cd'):
                continue
            wf = new(falsy=True)
            wf.raise_at = j
            got_f = wf.match()
            out.evaluations += 1
            if '' not in got_f:
                fail('a falsy value returned by on_error (empty string) is dropped', j=j)
                break
        nontrivial = len(U) >= 3 and len(skips) >= 1
        # ---- every abort point (with on_skip returning a value, and returning None) ---------------------
        U_all, n_all, log_all, sk_all = U, n, log_full, sk
        for variant in ({}, {'skip_none': True}, {'veto': True}):
            skip_none = tuple(sorted(variant))
            if variant:
                wv = new(**variant)
                U = wv.match()
                n, log_full, sk = wv.count, list(wv.log), wv.get_skipped()
                if variant.get('veto'):
                    out.stats['files_turned_down_by_on_validate_file'] += sk - sk_all
            new_k = (lambda v=variant: new(**v))
            for k in range(0, n + 2):
                w = new_k()
                if k == 0:
                    w.kill()
                else:
                    w.kill_at = k
                got = w.match()
                out.evaluations += 1
                if got != U[:len(got)]:
                    fail('output after kill is not a prefix of the uninterrupted output', k=k, got=got[-3:], want=U[:len(got)][-3:])
                    break
                if k == 0 and (got or w.count):
                    fail('kill() before the run does not prevent it', k=k, hooks=w.count)
                    break
                if 1 <= k <= n:
                    extra = w.count - k
                    later = [x[0] for x in w.log[k:]]
                    # allowed: the directory validation in progress may finish, and one file (the one being processed, or the next
                    # one when the kill came from a directory hook): compare_file, on_validate_file, on_match/on_skip
                    if extra > 4 or later.count('match') + later.count('skip') > 1 or later.count('vd') + later.count('cd') > 1:
                        fail('more than the file being processed is finished after kill', k=k, extra_hooks=extra, log=w.log[k - 1:k + 5])
                        break
                    if not w.is_aborted():
                        fail('is_aborted() is False after kill', k=k)
                        break
                    # how many values may still come out: only those of the file being processed
                    if len(got) > len(prefix_until(U, log_full, k)) + 0:
                        fail('values yielded beyond the file being processed when kill() was called', k=k, got=len(got),
                             allowed=len(prefix_until(U, log_full, k)))
                        break
                # sticky until reset
                w.kill_at = None
                again = w.match()
                if k <= n and again:
                    fail('abort is not sticky: a new match() on a killed object yields values', k=k, got=again[:3])
                    break
                if k <= n and not w.is_aborted():
                    fail('is_aborted() cleared without reset()', k=k)
                    break
                it = w.imatch()
                if k <= n and list(it):
                    fail('abort is not sticky for imatch()', k=k)
                    break
                w.reset()
                full = w.match()
                if full != U or w.get_skipped() != sk or w.is_aborted():
                    fail('after reset() the run is not the complete result again', k=k, got=len(full), want=len(U))
                    break
                if nontrivial and 1 <= k <= n:
                    out.nontrivial(('kill', desc['tree'], desc['cfg'], k, skip_none))

        U, n, log_full, sk = U_all, n_all, log_all, sk_all
        # ---- kill between two yielded results (driving imatch by hand) -----------------------------
        for j in range(0, len(U) + 1):
            w = new()
            it = w.imatch()
            got = []
            for _ in range(j):
                got.append(next(it))
            w.kill()
            rest = list(it)
            out.evaluations += 1
            if got + rest != U[:len(got) + len(rest)]:
                fail('kill between results: output is not a prefix', j=j)
                break
            if len(rest) > 1 or (rest and not (got and got[-1][0] == 'E')):
                fail('kill between results: further values were yielded', j=j, rest=rest[:3])
                break
            if nontrivial and 0 < j < len(U):
                out.nontrivial(('between', desc['tree'], desc['cfg'], j))
        # ---- a file hook raises, on_error returns a value, and the consumer kills right after receiving that value ----------------
        for j in range(1, n + 1):
            if log_full[j - 1][0] not in ('vf', 'cf'):
                continue
            w = new()
            w.raise_at = j
            it = w.imatch()
            got = []
            for v_ in it:
                got.append(v_)
                if v_[0] == 'E':
                    w.kill()
                    break
            rest = list(it)
            out.evaluations += 1
            errs = [x[1] for x in w.log if x[0] == 'err']
            routed = [x[1] for x in w.log if x[0] in ('match', 'skip')]
            if errs and errs[0] not in routed:
                fail('a file whose hook raised is routed to neither on_match nor on_skip when the consumer kills after the error value', j=j,
                     file=errs[0], rest=rest[:3])
                break
            if w.get_skipped() != len([x for x in w.log if x[0] == 'skip']):
                fail('get_skipped() differs from the number of on_skip calls after a kill that follows an error value', j=j)
                break
            if len(rest) > 1:
                fail('more than the file being processed is finished after a kill that follows an error value', j=j, rest=rest[:3])
                break
        # ---- a hook raises at every position ---------------------------------------------------------
        for j in range(1, n + 1):
            w = new()
            w.raise_at = j
            try:
                got = w.match()
            except Boom as e:
                fail('exception from a validation/comparison hook escaped', j=j, event=log_full[j - 1])
                break
            out.evaluations += 1
            ev = log_full[j - 1]
            if ev[0] in ('vf', 'cf', 'vd', 'cd'):
                errs = [x for x in w.log if x[0] == 'err']
                if len(errs) != 1:
                    fail('a raising hook did not lead to exactly one on_error', j=j, event=ev, on_error=len(errs))
                    break
                if ('E', errs[0][1]) not in got:
                    fail('the value returned by on_error is missing from the output', j=j)
                    break
                nm_ = len([x for x in w.log if x[0] == 'match'])
                ns_ = len([x for x in w.log if x[0] == 'skip'])
                if ev[0] in ('vf', 'cf'):
                    # every visited file still goes to exactly one of on_match / on_skip; the failing one is skipped
                    if nm_ + ns_ != len(matches) + len(skips) or ns_ not in (len(skips), len(skips) + 1):
                        fail('after a raising file hook the files are not routed one-to-one to on_match/on_skip', j=j, event=ev,
                             match=nm_, skip=ns_, base_match=len(matches), base_skip=len(skips))
                        break
                else:
                    # a directory whose hook raised is pruned: nothing below it is visited, nothing else changes
                    if nm_ > len(matches) or ns_ > len(skips):
                        fail('after a raising directory hook more files were matched/skipped than without it', j=j, event=ev)
                        break
            if w.get_skipped() != len([x for x in w.log if x[0] == 'skip']):
                fail('skipped counter differs from on_skip calls after a raising hook', j=j)
                break
            if nontrivial:
                out.nontrivial(('raise', desc['tree'], desc['cfg'], j))
        # ---- kill() from on_init -----------------------------------------------------------------------
        w = new(kill_in_init=True)
        out.evaluations += 1
        first = w.match()
        if first or not w.is_aborted() or w.get_skipped() != 0:
            fail('kill() issued in on_init does not hold', got=len(first), aborted=w.is_aborted(), skipped=w.get_skipped())
        elif list(w.imatch()):
            fail('kill() issued in on_init is not sticky for imatch()')
        else:
            w.reset()
            if w.match() != U_all or w.is_aborted():
                fail('after kill() in on_init and reset() the run is not the complete result')
        out.nontrivial(('kill-in-init', desc['tree'], desc['cfg']))
        # ---- kill() from the very hook invocation that raises (directory hooks) --------------------------
        for j in range(1, n + 1):
            if log_full[j - 1][0] not in ('vd', 'cd'):
                continue
            w = new()
            w.raise_at = j
            w.kill_at = j
            try:
                got = w.match()
            except Boom:
                fail('exception from a directory hook escaped (kill in the same hook)', j=j)
                break
            out.evaluations += 1
            later = [x[0] for x in w.log[j:]]
            if later.count('vd') + later.count('cd') > 0 or later.count('match') + later.count('skip') > 1 or later.count('err') > 1:
                fail('kill() from a raising directory hook: other directories are still validated / more than one file is finished',
                     j=j, later=later[:8])
                break
            if not w.is_aborted():
                fail('kill() from a raising directory hook: is_aborted() is False', j=j)
                break
            if nontrivial:
                out.nontrivial(('raise+kill', desc['tree'], desc['cfg'], j))
        # ---- cross-thread kill released exactly at hook k ------------------------------------------
        for k in range(1, n + 1):
            w = new()
            go = threading.Event()
            done = threading.Event()

            def killer(w=w):
                go.wait(10)
                w.kill()
                done.set()
            t = threading.Thread(target=killer)
            t.start()

            def at_hook(count, k=k):
                if count == k:
                    go.set()
                    done.wait(10)
            w.at_hook = at_hook
            got = w.match()
            go.set()
            t.join(10)
            out.evaluations += 1
            if got != U[:len(got)] or (w.count - k) > 4:
                fail('cross-thread kill at a hook boundary: not prefix-exact', k=k, extra_hooks=w.count - k)
                break
            if nontrivial:
                out.nontrivial(('thread', desc['tree'], desc['cfg'], k))
    out.sample({'tree_index': desc['tree'], 'file_pattern': fpat, 'exclude_pattern': epat, 'flags': flags, 'hooks': n, 'results': len(U),
                'abort_points': n + 2})
    return out


def prefix_until(U, log_full, k):
    """Values of U produced up to and including the file whose processing contains hook number k (1-based)."""
    # walk the uninterrupted log; a value is produced at each match / skip / err event
    produced = 0
    cur_file = None
    target_file = None
    for i, ev in enumerate(log_full, 1):
        if ev[0] == 'cf':
            cur_file = ('pending', i)
        if ev[0] in ('vf', 'match', 'skip', 'err'):
            cur_file = ev[1]
        if i == k:
            target_file = cur_file
            target_index = i
            break
    count = 0
    passed = False
    for i, ev in enumerate(log_full, 1):
        if ev[0] in ('match', 'skip', 'err'):
            if i <= k:
                count += 1
            elif not passed:
                # the first value-producing event after k belongs to the file (or the next file when k was a directory hook)
                count += 1
                passed = True
        if i > k and passed:
            break
    return U[:count]


def run_machine(desc):
    from hypothesis import strategies as st, seed, settings
    from hypothesis.stateful import RuleBasedStateMachine, rule, precondition, invariant, run_state_machine_as_test
    out = Outcome()
    holder = {}

    class Machine(RuleBasedStateMachine):
        def __init__(self):
            super().__init__()
            ti = holder['ti']
            ci = holder['ci']
            self.ctx = FC.built_tree(TREES[ti], follow_safe=bool(CONFIGS[ci][2] & WM.SYMLINKS))
            self.root, _r = self.ctx.__enter__()
            fpat, epat, flags = CONFIGS[ci]
            self.w = Rec(self.root, fpat, epat, flags=flags)
            fresh = Rec(self.root, fpat, epat, flags=flags)
            self.U = fresh.match()
            self.sk = fresh.get_skipped()
            self.aborted = False
            self.it = None
            self.taken = []
            self.runs = 0
            self.history = []
            self.it_started_aborted = False
            self.it_killed = False
            self.it_started = False
            self.after_kill = 0

        def teardown(self):
            self.ctx.__exit__(None, None, None)

        def bad(self, problem, **kw):
            out.violation({'history': self.history, 'tree_index': holder['ti'], 'config_index': holder['ci'], 'problem': problem, **kw},
                          size=len(self.history), bucket=('machine', problem))
            raise AssertionError(problem)

        @rule()
        def match(self):
            self.history.append('match')
            self.it = None
            got = self.w.match()
            self.runs += 1
            out.evaluations += 1
            want = [] if self.aborted else self.U
            if got != want:
                self.bad('match() result', got=len(got), want=len(want))
            if not self.aborted and self.w.get_skipped() != self.sk:
                self.bad('skipped counter after match()', got=self.w.get_skipped(), want=self.sk)
            if self.aborted and self.w.get_skipped() != 0:
                # every run starts its counter afresh, also one that ends at once because the object is still killed
                self.bad('skipped counter after a run on a killed object', got=self.w.get_skipped(), want=0)

        @rule()
        def start_imatch(self):
            self.history.append('imatch')
            self.it = self.w.imatch()
            self.taken = []
            self.it_killed = False
            self.it_started = False

        @precondition(lambda self: self.it is not None)
        @rule(n=st.integers(1, 4))
        def take(self, n):
            self.history.append('next*%d' % n)
            for _ in range(n):
                if not self.it_started:
                    self.it_started = True
                    self.runs += 1
                    self.it_started_aborted = self.aborted
                try:
                    v = next(self.it)
                except StopIteration:
                    if not self.aborted and not self.it_killed and not self.it_started_aborted and self.taken != self.U:
                        self.bad('iterator ended early', taken=len(self.taken), want=len(self.U))
                    self.it = None
                    return
                self.taken.append(v)
                out.evaluations += 1
                if self.it_started_aborted:
                    self.bad('an iterator started on a killed object yielded a value')
                if self.taken != self.U[:len(self.taken)]:
                    self.bad('iterator output is not a prefix of the uninterrupted output', taken=self.taken[-2:])
                if self.it_killed:
                    self.after_kill += 1
                    if self.after_kill > 1:
                        self.bad('more than one value after kill()')

        @rule()
        def kill(self):
            self.history.append('kill')
            self.w.kill()
            self.aborted = True
            if self.it is not None:
                self.it_killed = True
                self.after_kill = 0

        @rule()
        def reset(self):
            self.history.append('reset')
            self.w.reset()
            self.aborted = False
            # a live iterator that has not yet looked at the flag simply carries on (had it seen the flag, it would have ended
            # inside that next() call and self.it would be None)
            self.it_killed = False

        @rule()
        def drop(self):
            self.history.append('drop')
            self.it = None

        @invariant()
        def aborted_flag(self):
            if self.w.is_aborted() != self.aborted:
                self.bad('is_aborted() disagrees with the kill/reset history', got=self.w.is_aborted(), want=self.aborted)
            if self.w.resets != self.runs:
                self.bad('on_reset count differs from the number of runs', got=self.w.resets, want=self.runs)

    n = desc['n']
    for i in range(3):
        holder['ti'] = (desc['seed'] + i) % len(TREES)
        holder['ci'] = (desc['seed'] // 3 + i) % len(CONFIGS)
        try:
            run_state_machine_as_test(seed(desc['seed'] + i)(Machine),
                                      settings=settings(max_examples=max(3, n // 3), stateful_step_count=14, deadline=None, database=None,
                                                        report_multiple_bugs=False, suppress_health_check=list(__import__('hypothesis').HealthCheck),
                                                        verbosity=__import__('hypothesis').Verbosity.quiet))
        except Exception:
            # Hypothesis re-raises our AssertionError, or wraps it (FlakyFailure) when process-wide state made the replay differ
            if not out.violations:
                raise
        out.nontrivial(('machine', holder['ti'], holder['ci'], desc['seed']))
        out.nontrivial(('machine-b', holder['ti'], holder['ci'], desc['seed'] + 1))
    out.sample({'kind': 'state machine', 'rules': ['match', 'imatch', 'next*n', 'kill', 'reset', 'drop'], 'examples': n})
    return out


def replay(case):
    util.clear_caches()
    if 'history' in case:
        ti, ci = case['tree_index'], case['config_index']
        fpat, epat, flags = CONFIGS[ci]
        with FC.built_tree(TREES[ti], follow_safe=bool(flags & WM.SYMLINKS)) as (root, _r):
            U = Rec(root, fpat, epat, flags=flags).match()
            w = Rec(root, fpat, epat, flags=flags)
            aborted = False
            it = None
            taken = []
            ok = True
            for step in case['history']:
                if step == 'match':
                    got = w.match()
                    ok = ok and got == ([] if aborted else U)
                    if aborted:
                        ok = ok and w.get_skipped() == 0
                elif step == 'imatch':
                    it = w.imatch()
                    taken = []
                elif step.startswith('next') and it is not None:
                    for _ in range(int(step.split('*')[1])):
                        try:
                            taken.append(next(it))
                        except StopIteration:
                            it = None
                            break
                    ok = ok and taken == U[:len(taken)]
                elif step == 'kill':
                    w.kill()
                    aborted = True
                elif step == 'reset':
                    w.reset()
                    aborted = False
                elif step == 'drop':
                    it = None
                ok = ok and w.is_aborted() == aborted
            return ok, {'history': case['history']}
    o = run_abort({'tree': case['tree_index'], 'cfg': case['config_index']})
    return (not o.violations), [v[2].get('problem') for v in o.violations]
