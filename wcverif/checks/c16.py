"""C16 - pathlib methods are faithful views of wcmatch.glob."""
import os
import pathlib

from . import c06 as C06
from ..runner import Outcome, HarnessError
from .. import ast as A, ref as R, trees as T, walker as W, fscommon as FC, findings as K, util
from ..util import G, WP

PROPERTY = 'C16'
RULE = ('case = (tree, relative or absolute path pattern, configuration over GLOBSTAR, DOTGLOB, EXTGLOB, FOLLOW, GLOBSTARLONG, NODIR, '
        'NEGATE, SCANDOTDIR, NOUNIQUE, REALPATH, path objects for the root and every entry); oracle (metamorphic against '
        'wcmatch.glob): Path.glob == {root / x for x in glob.glob(root_dir=root)}; rglob == reference walker with a globstar '
        'segment prepended at AST level (three-valued); PurePath.globmatch/full_match == glob.globmatch on the path string with the '
        'class platform forced (trailing separator for a concrete directory); for relative q below the cwd q.match(p, REALPATH) iff '
        'Path(".").rglob(p) yields q; absolute patterns to glob/rglob raise ValueError; user FORCEWIN/FORCEUNIX are ignored; '
        'REALPATH on a foreign pure path raises ValueError; no path twice unless NOUNIQUE; non-trivial = tree depth >= 2 and the '
        'pattern has a wildcard; evaluations = comparisons made')
ASSUMPTIONS = ['patterns with literal `.`/`..` segments or SCANDOTDIR are not judged for the match<->rglob clause (pathlib normalises them away)',
               'patterns whose first segment is a globstar are undecided for the rglob/match clauses (K5/K17 zone)',
               'WindowsPath cannot be instantiated on Linux; Windows behaviour only through PureWindowsPath']

CFG_KEYS = ['globstar', 'dot', 'follow', 'globstarlong', 'nodir', 'scandotdir', 'nounique', 'nodir']


def shards(tier, seed, scale=1.0):
    n = 250 if tier == 'quick' else 4000
    out = [{'name': 'pl-%d' % s, 'kind': 'pl', 'seed': seed * 1000 + s, 'n': max(10, int(n * scale))} for s in range(16)]
    out.append({'name': 'fixed', 'kind': 'fixed'})
    return out


def run_shard(desc):
    if desc['kind'] == 'fixed':
        return run_fixed(desc)
    return run_pl(desc)


def has_dot_segment(pp):
    for s in pp.segs:
        if not isinstance(s, str) and A.is_literal(s) and A.literal_text(s) in ('.', '..'):
            return True
    return False


def check_case(root, spec, pp, cfg, out, armed, excl=None):
    text = A.render_path(pp)
    fl = FC.cfg_flags(cfg)
    etext = A.render_path(excl) if excl is not None else None
    xkw = {} if etext is None else {'exclude': etext}
    case = {'tree': [list(e) for e in spec], 'ast': A.to_json(pp), 'pattern': text, 'cfg': cfg,
            'excl_ast': A.to_json(excl) if excl is not None else None, 'exclude': etext}
    rp = WP.Path(root)
    model = T.Model(root)
    first_gs = isinstance(pp.segs[0], str)
    try:
        with util.watchdog(20), util.ScandirCounter(10000):
            # 1. Path.glob vs glob.glob
            pres = list(rp.glob(text, flags=fl, **xkw))
            gres = G.glob(text, flags=fl, root_dir=root, **xkw)
            out.evaluations += 1
            if set(pres) != {rp / x for x in gres}:
                d = sorted(str(p) for p in set(pres) ^ {rp / x for x in gres})[0]
                out.violation(dict(case, problem='Path.glob differs from glob.glob(root_dir=...)', name=os.path.relpath(d, root)),
                              size=len(text) * 10, bucket=('glob',))
                return
            if not cfg.get('nounique') and len(pres) != len(set(pres)):
                out.violation(dict(case, problem='Path.glob yields a path twice', name=str(sorted(p for p in pres if pres.count(p) > 1)[0])),
                              bucket=('dup',))
                return
            # 2. rglob vs the reference walker with a prepended globstar
            rres = list(rp.rglob(text, flags=fl, **xkw))
            opts = FC.walker_opts(cfg, extmatchbase=True)
            ref, undecided = W.ref_glob(model, pp, opts)
            must = {rp / p for p, v in ref.items() if v == R.MUST}
            may = {rp / p for p in ref}
            got = set(rres)
            out.evaluations += 1
            kw = FC.ref_kwargs(cfg)
            kw['extmatchbase'] = True
            if not undecided and not cfg.get('scandotdir') and not has_dot_segment(pp) and excl is None:
                problems = [(p, False, R.MUST) for p in sorted(must - got, key=str)] + [(p, True, R.MUSTNOT) for p in sorted(got - may, key=str)]
                for p, impl, v in problems:
                    rel = os.path.relpath(str(p), root)
                    ids = K.path_classes(pp, rel, kw, impl, v, text)
                    if impl:
                        # pathlib normalises `x/.` to `x` and `./x` to `x`: the defect may sit in a special segment
                        # that is no longer visible in the path object
                        for spelled in (rel + '/.', rel + '/..', './' + rel, '.', '..'):
                            ids |= K.path_classes(pp, spelled, kw, True, R.MUSTNOT, text) & {'K3', 'K8', 'K20'}
                    hit = sorted(ids & set(armed))
                    c = dict(case, problem='rglob differs from the reference walk with an implicit leading globstar', name=rel, impl=impl)
                    if hit:
                        out.known_hit(hit[0], c)
                    else:
                        out.violation(c, size=len(text) * 10 + len(rel), bucket=('rglob', impl, tuple(sorted(ids))))
                        return
                    break
            if not cfg.get('nounique') and len(rres) != len(set(rres)):
                out.violation(dict(case, problem='Path.rglob yields a path twice'), bucket=('dup-r',))
                return
            # 3. PurePath.globmatch / full_match vs glob.globmatch
            entries = [p for p, _d, _l in model.all_entries(follow=False, max_depth=5)]
            for rel in entries[:25]:
                isd = os.path.isdir(os.path.join(root, rel))
                pure = WP.PurePosixPath(rel)
                a = pure.globmatch(text, flags=fl & ~G.REALPATH, **xkw)
                b = G.globmatch(rel, text, flags=(fl & ~G.REALPATH) | G.FORCEUNIX, **xkw)
                f = pure.full_match(text, flags=fl & ~G.REALPATH, **xkw)
                out.evaluations += 1
                if bool(a) != bool(b) or bool(f) != bool(b):
                    out.violation(dict(case, problem='PurePath.globmatch/full_match differs from glob.globmatch', name=rel, impl=[bool(a), bool(f)],
                                       want=bool(b)), bucket=('pure',))
                    return
                # the Windows flavour: platform rules fixed by the class, whatever the host is
                wrel = rel.replace('/', '\\')
                wpure = WP.PureWindowsPath(wrel)
                wa = wpure.globmatch(text, flags=fl & ~G.REALPATH)
                wb = G.globmatch(str(wpure), text, flags=(fl & ~G.REALPATH) | G.FORCEWIN)
                wm = wpure.match(text, flags=fl & ~G.REALPATH)
                wm2 = WP.PureWindowsPath(wrel.swapcase()).match(text, flags=fl & ~G.REALPATH)
                out.evaluations += 1
                if bool(wa) != bool(wb):
                    out.violation(dict(case, problem='PureWindowsPath.globmatch differs from glob.globmatch(..., FORCEWIN)', name=wrel, impl=bool(wa),
                                       want=bool(wb)), bucket=('pure-win',))
                    return
                if bool(wm) != bool(wm2) and wrel.isascii():
                    out.violation(dict(case, problem='PureWindowsPath.match is not case-insensitive', name=wrel, impl=[bool(wm), bool(wm2)]),
                                  bucket=('pure-win-case',))
                    return
                conc = rp / rel
                with util.chdir(root):
                    c1 = WP.Path(rel).globmatch(text, flags=fl, **xkw)
                    c2 = G.globmatch(rel + ('/' if isd else ''), text, flags=fl | G.FORCEUNIX, **xkw)
                    c3 = WP.Path(rel).full_match(text, flags=fl, **xkw)
                    nofl = fl & ~G.REALPATH
                    c4 = WP.Path(rel).full_match(text, flags=nofl, **xkw)
                    c5 = G.globmatch(rel + ('/' if isd else ''), text, flags=nofl | G.FORCEUNIX, **xkw)
                    c6 = WP.Path(rel).globmatch(text, flags=nofl, **xkw)
                out.evaluations += 1
                if bool(c3) != bool(c2) or bool(c4) != bool(c5) or bool(c6) != bool(c5):
                    out.violation(dict(case, problem='Path.full_match / globmatch differs from glob.globmatch on the path string (+ separator for a directory)',
                                       name=rel, impl=[bool(c3), bool(c4), bool(c6)], want=[bool(c2), bool(c5), bool(c5)]), bucket=('concrete-full',))
                    return
                if bool(c1) != bool(c2):
                    out.violation(dict(case, problem='Path.globmatch differs from glob.globmatch on the path string (+ separator for a directory)',
                                       name=rel, impl=bool(c1), want=bool(c2)), bucket=('concrete',))
                    return
                # user-supplied FORCEWIN / FORCEUNIX are ignored
                a2 = pure.globmatch(text, flags=(fl & ~G.REALPATH) | G.FORCEWIN) if False else None
            # 4. match(REALPATH) <-> rglob
            excl_ok = excl is None or not (isinstance(excl.segs[0], str) or has_dot_segment(excl))
            if not first_gs and not has_dot_segment(pp) and not cfg.get('scandotdir') and not undecided and excl_ok:
                with util.chdir(root):
                    here = WP.Path('.')
                    ry = set(here.rglob(text, flags=fl, **xkw))
                    # ... and paths that run through symlinked directories (rglob reaches them only when its globstars follow links)
                    linked = [p_ for p_, _d, _l in model.all_entries(follow=True, max_depth=4)
                              if '..' not in p_.split('/') and p_ not in entries and any(C06.link_flags(os.getcwd(), p_.split('/'))[:-1])]
                    out.stats['match_rglob_paths_through_links'] += len(linked[:10])
                    for rel in entries[:25] + linked[:10]:
                        q = WP.Path(rel)
                        m = q.match(text, flags=fl | G.REALPATH, **xkw)
                        out.evaluations += 1
                        if bool(m) != (q in ry):
                            ids = K.path_classes(pp, rel, kw, bool(m), R.MUSTNOT if m else R.MUST, text)
                            # the disagreement has two parties: match() may be the one that is right and rglob() the one that shows a listed
                            # finding in the opposite direction (e.g. K2 under the crawler's implied NODOTDIR: `+(?|.*)` does not list 'a.')
                            ids |= K.path_classes(pp, rel, kw, not m, R.MUST if m else R.MUSTNOT, text)
                            if m and isinstance(pp.segs[-1], str) and pp.trail and not os.path.isdir(rel):
                                ids.add('K16')
                            if m and rel.endswith('\n'):
                                ids.add('K33')      # match() always has the implicit prefix, hence a globstar divider
                            if not m:
                                comps = rel.split('/')
                                lf = C06.link_flags(os.getcwd(), comps)
                                segs = [('gs', bool(cfg.get('follow')))] + C06.seg_list(pp, dict(cfg, matchbase=False))
                                if any(lf[:-1]) and C06.ambiguous_link_alignment(comps, lf, segs, bool(cfg.get('icase'))):
                                    ids.add('K29')
                                for spelled in (rel + '/.', rel + '/..', './' + rel):
                                    ids |= K.path_classes(pp, spelled, kw, True, R.MUSTNOT, text) & {'K3', 'K8', 'K20'}
                            c = dict(case, problem='q.match(p, REALPATH) differs from "rglob(p) yields q"', name=rel, match=bool(m), rglob=q in ry)
                            hit = sorted(ids & set(armed))
                            if hit:
                                out.known_hit(hit[0], c)
                            else:
                                out.violation(c, size=len(text) * 10 + len(rel), bucket=('match-rglob', bool(m), tuple(sorted(ids))))
                                return
                            break
    except util.HarnessBudget:
        out.stats['budget_skipped'] += 1
        return
    return True


def run_pl(desc):
    from hypothesis import given, strategies as st, seed
    out = Outcome()
    armed = desc['armed']

    @seed(desc['seed'])
    @util.hyp_settings(desc['n'], shrink=False)
    @given(FC.st_case(max_segs=3, allow_cycles=False), FC.st_cfg(CFG_KEYS), st.data())
    def test(sp, cfg, data):
        spec, pp = sp
        excl = None
        if data.draw(st.integers(0, 2)) == 0:
            names = sorted({os.path.basename(e[1]) for e in spec} | {'zz'})
            excl = data.draw(FC.st_pathpat(2, globstarlong=False, trail=False, names=names))
            if any(not isinstance(s_, str) and R.seg_nullable(s_) for s_ in excl.segs):
                excl = None
        # nullable segments and mixed globstar kinds are undecided zones shared with C04
        prev = None
        for s in pp.segs:
            if isinstance(s, str):
                if cfg.get('globstarlong') and prev is not None and prev != s:
                    out.either += 1
                    return
                prev = s
            else:
                prev = None
                if R.seg_nullable(s):
                    out.either += 1
                    return
        follow = FC.follows_links(cfg)
        with FC.built_tree(spec, follow_safe=True) as (root, _removed):
            out.stats['cases'] += 1
            out.stats['with_exclusion'] += excl is not None
            ok = check_case(root, spec, pp, cfg, out, armed, excl)
            deep = any(e[1].count('/') >= 1 for e in spec)
            wild = any(isinstance(s, str) or A.has_wild(s) for s in pp.segs)
            if ok and deep and wild:
                out.nontrivial((tuple(map(tuple, spec)), A.render_path(pp), tuple(sorted(cfg))))
            if out.stats['cases'] % 41 == 1:
                out.sample({'tree': [e[1] + ('->' + e[2] if e[0] == 'l' else '/' if e[0] == 'd' else '') for e in spec],
                            'pattern': A.render_path(pp), 'cfg': cfg})
    test()
    return out


def run_fixed(desc):
    """The clauses that are fixed points rather than generated: ValueError cases and ignored platform flags."""
    out = Outcome()
    with FC.built_tree(T.CATALOGUE[0]) as (root, _r):
        rp = WP.Path(root)

        def expect_valueerror(label, fn):
            out.evaluations += 1
            out.nontrivial(('fixed', label))
            try:
                r = fn()
                out.violation({'mode': 'fixed', 'call': label, 'problem': 'expected ValueError, returned', 'returned': repr(r)[:80]}, bucket=('fixed', label))
            except ValueError:
                pass
            except Exception as e:
                out.violation({'mode': 'fixed', 'call': label, 'problem': 'expected ValueError, raised ' + type(e).__name__}, bucket=('fixed', label))
        expect_valueerror('Path.glob absolute pattern', lambda: list(rp.glob('/a')))
        expect_valueerror('Path.rglob absolute pattern', lambda: list(rp.rglob('/a')))
        expect_valueerror('Path.glob absolute pattern in list', lambda: list(rp.glob(['a', root + '/a'])))
        # ... also when the absolute pattern only appears after BRACE / SPLIT expansion
        expect_valueerror('Path.glob absolute alternative (BRACE)', lambda: list(rp.glob('{' + root + '/a,b}/*', flags=G.BRACE)))
        expect_valueerror('Path.glob absolute alternative (BRACE, empty first)', lambda: list(rp.glob('{,/}a*', flags=G.BRACE)))
        expect_valueerror('Path.glob absolute piece (SPLIT)', lambda: list(rp.glob('a*|' + root + '/a*', flags=G.SPLIT)))
        expect_valueerror('Path.rglob absolute piece (SPLIT)', lambda: list(rp.rglob('a*|/a*', flags=G.SPLIT)))
        expect_valueerror('Path.rglob absolute alternative (BRACE)', lambda: list(rp.rglob('{x,/y}', flags=G.BRACE)))
        expect_valueerror('PureWindowsPath REALPATH', lambda: WP.PureWindowsPath('a').globmatch('a', flags=G.REALPATH))
        expect_valueerror('PureWindowsPath match REALPATH', lambda: WP.PureWindowsPath('a').match('a', flags=G.REALPATH))
        # user-supplied FORCEWIN / FORCEUNIX are ignored: the class decides
        for cls, name, pat, want in ((WP.PurePosixPath, 'A/b', 'a/B', False), (WP.PureWindowsPath, 'A\\b', 'a/B', True),
                                     (WP.PurePosixPath, 'a\\b', 'a/b', False), (WP.PureWindowsPath, 'a\\b', 'a/b', True)):
            for extra in (0, G.FORCEWIN, G.FORCEUNIX, G.FORCEWIN | G.FORCEUNIX):
                out.evaluations += 1
                for meth in ('globmatch', 'match', 'full_match'):
                    try:
                        got = getattr(cls(name), meth)(pat, flags=extra)
                    except Exception as e:
                        out.violation({'mode': 'fixed', 'call': '%s(%r).%s(%r, flags=%d)' % (cls.__name__, name, meth, pat, extra),
                                       'impl': type(e).__name__, 'want': want, 'problem': 'platform flags given by the user are not ignored'},
                                      bucket=('platform', cls.__name__, extra))
                        continue
                    if bool(got) != want:
                        out.violation({'mode': 'fixed', 'call': '%s(%r).%s(%r, flags=%d)' % (cls.__name__, name, meth, pat, extra), 'impl': bool(got),
                                       'want': want, 'problem': 'platform rules are fixed by the path class'}, bucket=('platform', cls.__name__, extra))
            out.nontrivial(('platform', cls.__name__, name))
        # special directories: pathlib folds `d/.` into `d`, so whenever a pattern can reach both spellings the results must be
        # de-duplicated (unless NOUNIQUE), whatever other flags are set
        dot_flags = ['SCANDOTDIR', 'DOTGLOB', 'GLOBSTAR', 'NODOTDIR', 'EXTGLOB', 'NOUNIQUE', 'MATCHBASE']
        dot_pats = ['.*', '*', '.*/.*', '*/.*', '@(.|d)', '.', './*', '*/.', '**/.*', '**/.', '?*', '.*/', '@(.|..|a)', '*/*', '**', '.hd/.*']
        with FC.built_tree([('f', 'a'), ('d', 'd'), ('f', 'd/a'), ('d', '.hd'), ('f', '.hd/x'), ('d', 'd/deep'), ('f', '.h')]) as (droot, _r2):
            drp = WP.Path(droot)
            for pat in dot_pats:
                for i in range(1 << len(dot_flags)):
                    names = [n for j, n in enumerate(dot_flags) if i >> j & 1]
                    fl = util.flags_of(names, util.GL_FLAGS)
                    for meth in ('glob', 'rglob'):
                        out.evaluations += 1
                        try:
                            res = list(getattr(drp, meth)(pat, flags=fl))
                        except Exception as e:
                            out.violation({'mode': 'fixed', 'call': 'Path.%s(%r, flags=%s)' % (meth, pat, '|'.join(names)), 'impl': type(e).__name__,
                                           'problem': 'exception'}, bucket=('dots-exc', meth))
                            continue
                        dup = sorted(str(x) for x in set(res) if res.count(x) > 1)
                        if dup and 'NOUNIQUE' not in names:
                            out.violation({'mode': 'fixed', 'call': 'Path.%s(%r, flags=%s)' % (meth, pat, '|'.join(names)),
                                           'name': os.path.relpath(dup[0], droot), 'problem': 'a path is yielded twice'}, bucket=('dots-dup', meth))
                        if meth == 'glob':
                            gres = G.glob(pat, flags=fl, root_dir=droot)
                            if {drp / x for x in gres} != set(res):
                                out.violation({'mode': 'fixed', 'call': 'Path.glob(%r, flags=%s)' % (pat, '|'.join(names)),
                                               'problem': 'Path.glob differs from glob.glob(root_dir=...)'}, bucket=('dots-glob',))
                out.nontrivial(('dots', pat))
        # match() is right-anchored like rglob(): q.match(p, REALPATH) iff rglob(p) yields q, for patterns with a globstar in the
        # middle and paths that have extra leading components
        mr_tree = [('d', 'a'), ('d', 'a/b'), ('f', 'a/b/x'), ('d', 'd'), ('d', 'd/a'), ('d', 'd/a/b'), ('f', 'd/a/b/x'), ('f', 'a/x'), ('f', 'd/a/x'),
                   ('f', 'x'), ('d', 'b'), ('f', 'b/x'), ('d', 'd/d'), ('d', 'd/d/a'), ('f', 'd/d/a/x'), ('d', 'a/b/c'), ('f', 'a/b/c/x'),
                   ('l', 'ld', 'a'), ('l', 'd/lb', '../b')]
        # paths that run through the symlinked directories: rglob() reaches them only when its globstars follow links, and so must match()
        mr_linked = ['ld/x', 'ld/b/x', 'ld/b', 'ld/b/c/x', 'd/lb/x', 'ld/b/c']
        mr_pats = ['a/**/x', 'a/**/b/x', 'a/**', 'b/x', '*/x', 'a/*/x', 'a/b/x', 'a/**/**/x', 'x', 'a/**/c/x', '?/**/x', 'a/***/x', 'd/**/a/**/x',
                   'b/**/x', 'a/b/**', 'b/', 'a/b/', 'd/a/', '*/b/']      # (a trailing `**/` is the K16 zone)
        with FC.built_tree(mr_tree) as (mroot, _r3):
            with util.chdir(mroot):
                here = WP.Path('.')
                ents = [e[1] for e in mr_tree] + mr_linked
                for pat in mr_pats:
                    for fl in (G.GLOBSTAR, G.GLOBSTAR | G.DOTGLOB, G.GLOBSTARLONG | G.GLOBSTAR, G.GLOBSTAR | G.EXTGLOB, G.GLOBSTARLONG,
                               G.GLOBSTAR | G.MATCHBASE, G.MATCHBASE, G.GLOBSTAR | G.MATCHBASE | G.FOLLOW, 0):
                        if not fl & (G.GLOBSTAR | G.GLOBSTARLONG) and '**' in pat:
                            continue       # (without GLOBSTAR a written `**` is a plain star: other clauses)
                        ry = set(here.rglob(pat, flags=fl))
                        for rel in ents:
                            q = WP.Path(rel)
                            out.evaluations += 1
                            m = bool(q.match(pat, flags=fl | G.REALPATH))
                            # for a file the pure (string-only) match sees the same text; a directory gets its separator only under REALPATH
                            pm = m if (os.path.isdir(rel) or rel in mr_linked) else bool(WP.PurePosixPath(rel).match(pat, flags=fl))
                            if m != (q in ry) or pm != m:
                                out.violation({'mode': 'fixed', 'call': 'Path(%r).match(%r, flags=%d|REALPATH)' % (rel, pat, fl), 'match': m,
                                               'pure_match': pm, 'rglob_yields': q in ry,
                                               'problem': 'match() and rglob() disagree about right-anchoring'}, bucket=('match-rglob-fixed', pat))
                                break
                    out.nontrivial(('match-rglob-fixed', pat))
        # a non-directory Path globs nothing
        out.evaluations += 1
        if list((rp / 'a').glob('*')):
            out.violation({'mode': 'fixed', 'call': 'Path(file).glob', 'problem': 'glob on a non-directory yields something'}, bucket=('nondir',))
    out.sample({'mode': 'fixed', 'calls': ['absolute patterns raise ValueError', 'foreign-platform REALPATH raises ValueError', 'FORCEWIN/FORCEUNIX ignored']})
    return out


def replay(case):
    util.clear_caches()
    if case.get('mode') == 'fixed':
        r = run_fixed({})
        return (not r.violations), [v[2].get('call') for v in r.violations]
    spec = [tuple(e) for e in case['tree']]
    pp = A.from_json(case['ast'])
    excl = A.from_json(case['excl_ast']) if case.get('excl_ast') else None
    o = Outcome()
    with FC.built_tree(spec, follow_safe=True) as (root, _r):
        check_case(root, spec, pp, case['cfg'], o, [], excl)
    return (not o.violations), [dict(problem=v[2].get('problem'), name=v[2].get('name')) for v in o.violations]
