"""C02 - path matching respects separators, segments, globstar and MATCHBASE (glob mode, no REALPATH)."""
import re
import itertools

from ..runner import Outcome, HarnessError
from .. import ast as A, ref as R, names as N, lang, util
from ..util import G

PROPERTY = 'C02'
RULE = ('case = (path pattern AST, flag configuration, path); patterns: every 1-3 segment pattern within a total token budget '
        '(segment atoms a . ? * [!a], groups ?( *( +( @( !(, `**`/`***` segments in any position; absolute / trailing-separator / '
        'duplicate-separator variants) and Hypothesis path patterns of up to 4 segments; paths: every string up to length 5 '
        'over the pattern\'s minterm representatives plus "/" and paths assembled from model-accepted segment names with 1-2 '
        'separators; configurations over GLOBSTAR, GLOBSTARLONG, MATCHBASE, DOTGLOB, NODOTDIR, NODIR; evaluations count '
        '(pattern, path) pairs with a decided reference verdict in C02\'s domain (no hidden or ./.. segment unless DOTGLOB, '
        'never ./..); non-trivial = >= 2 segments or a globstar, and both verdicts occurred; plus the text-level segment-count '
        'invariant on raw strings')
ASSUMPTIONS = [
    'reference alignment wcverif/ref.py:path_verdict is the documented meaning; zones it leaves undecided are listed in DESIGN.md 2.2',
]

CONFIGS = [
    {}, {'dot': True}, {'globstar': True}, {'globstar': True, 'dot': True}, {'matchbase': True},
    {'globstar': True, 'matchbase': True}, {'nodotdir': True}, {'dot': True, 'nodotdir': True}, {'nodir': True},
    {'globstarlong': True}, {'globstar': True, 'nodir': True, 'dot': True}, {'globstarlong': True, 'matchbase': True, 'dot': True},
]

SEG_ATOMS = (A.lit('a'), A.lit('.'), A.ANY, A.STAR, A.mkset(True, ('c', 'a')))


def select_c02(cfg):
    dot = bool(cfg.get('dot'))

    def sel(path):
        for seg in R.split_path(path)[1]:
            if seg in ('.', '..'):
                return False
            if not dot and seg[0] == '.':
                return False
        return True
    return sel


def enum_pathpats(budget, atoms=SEG_ATOMS, kinds='?*+@!'):
    """All PathPats (relative, no trailing separator) whose segments' costs sum to <= budget, 1..3 segments."""
    pools = {}
    for b in range(1, budget + 1):
        pools[b] = [s for s in A.enum_seqs(b, atoms, kinds=kinds, max_depth=1, max_alts=2) if A.merge_stars(s) == s]
        pools[b] = [s for s in pools[b] if s != (A.STAR,) or True]
    seen = set()
    for k in (1, 2, 3):
        for costs in itertools.product(range(1, budget + 1), repeat=k):
            if sum(costs) > budget:
                continue
            choices = []
            for c in costs:
                ch = list(pools[c])
                if c == 1:
                    ch = ch + [A.GS, A.GSL]
                choices.append(ch)
            for segs in itertools.product(*choices):
                if segs not in seen:
                    seen.add(segs)
                    yield segs


def shards(tier, seed, scale=1.0):
    out = []
    if tier == 'quick':
        budget, plen, S, hyp_n, ncfg = 3, 5, 32, 150, 3
    else:
        # budget 4 (235 k segment lists) on all paths up to length 4 under 2 configurations, and budget 3 on paths up to
        # length 5 under 5 configurations
        budget, plen, S, hyp_n, ncfg = 4, 4, 256, 2500, 2
        for s in range(32):
            out.append({'name': 'enum3x5-%d' % s, 'kind': 'enum', 'shard': s, 'of': 32, 'budget': 3, 'plen': 5, 'ncfg': 5})
    for s in range(S):
        out.append({'name': 'enum-%d' % s, 'kind': 'enum', 'shard': s, 'of': S, 'budget': budget, 'plen': plen, 'ncfg': ncfg})
    for s in range(16):
        out.append({'name': 'hyp-%d' % s, 'kind': 'hyp', 'seed': seed * 1000 + s, 'n': max(10, int(hyp_n * scale))})
    out.append({'name': 'textinv', 'kind': 'textinv', 'seed': seed})
    for s in range(4):
        out.append({'name': 'sets-%d' % s, 'kind': 'sets', 'shard': s, 'of': 4})
    for s in range(4):
        out.append({'name': 'real-%d' % s, 'kind': 'real', 'shard': s, 'of': 4, 'budget': 3 if tier == 'quick' else 4})
    for s in range(4):
        out.append({'name': 'unclosed-%d' % s, 'kind': 'unclosed', 'shard': s, 'of': 4, 'budget': 2 if tier == 'quick' else 3})
    for s in range(4):
        out.append({'name': 'newline-%d' % s, 'kind': 'newline', 'shard': s, 'of': 4, 'budget': 2 if tier == 'quick' else 3})
    return out


def run_shard(desc):
    if desc['kind'] == 'enum':
        return run_enum(desc, PROPERTY, select_c02)
    if desc['kind'] == 'hyp':
        return run_hyp(desc, PROPERTY, select_c02)
    if desc['kind'] == 'textinv':
        return run_textinv(desc)
    if desc['kind'] == 'sets':
        return run_sets(desc, PROPERTY, select_c02)
    if desc['kind'] == 'real':
        return run_real(desc)
    if desc['kind'] == 'unclosed':
        return run_unclosed(desc)
    if desc['kind'] == 'newline':
        return run_newline(desc)
    raise HarnessError(desc['kind'])


REAL_TREE = [('d', 'a'), ('d', 'a/a'), ('d', 'c'), ('d', '.a'), ('d', 'a/.a'), ('d', 'c/a'), ('f', 'a/c'), ('f', 'a/a/a'), ('f', 'a/a/c'),
             ('f', 'c/c'), ('f', 'c/a/a'), ('f', '.a/a'), ('f', 'a/.a/c'), ('f', 'cc'), ('f', 'a.c'), ('f', '.c'), ('d', 'a/a/.a')]
REAL_CONFIGS = [{}, {'globstar': True}, {'globstarlong': True}, {'globstar': True, 'dot': True}, {'matchbase': True}, {'globstar': True, 'matchbase': True},
                {'globstarlong': True, 'dot': True, 'matchbase': True}, {'globstar': True, 'nodir': True}, {'globstarlong': True, 'follow': True}]


def run_real(desc):
    """REALPATH on a tree without symlinks adds nothing but the existence test: for every entry p of a fixed link-free tree,
    globmatch(p, pattern, flags | REALPATH, root_dir=tree) must equal globmatch(p (+ separator if a directory), pattern, flags)
    - the segment / globstar / MATCHBASE rules are the same with and without the capture machinery REALPATH switches on."""
    from .. import fscommon as FC
    out = Outcome()
    out.exhaustive = True
    s, S = desc['shard'], desc['of']
    idx = 0
    with FC.built_tree(REAL_TREE) as (root, _r):
        entries = [(e[1], e[0] == 'd') for e in REAL_TREE]
        for segs in enum_pathpats(desc['budget'], atoms=(A.lit('a'), A.lit('c'), A.lit('.'), A.ANY, A.STAR)):
            idx += 1
            if idx % S != s:
                continue
            for pp in variants(segs, idx):
                if pp.absolute:
                    continue
                text = A.render_path(pp)
                for cfg in (REAL_CONFIGS[0], REAL_CONFIGS[1 + idx % (len(REAL_CONFIGS) - 1)], REAL_CONFIGS[1 + (idx // 7) % (len(REAL_CONFIGS) - 1)]):
                    fl = FC.cfg_flags(cfg)
                    try:
                        with util.watchdog(5):
                            for p, isd in entries:
                                plain = bool(G.globmatch(p + ('/' if isd else ''), text, flags=fl))
                                real = bool(G.globmatch(p, text, flags=fl | G.REALPATH, root_dir=root))
                                out.evaluations += 1
                                if plain != real:
                                    out.violation({'mode': 'real', 'pattern': text, 'ast': A.to_json(pp), 'cfg': cfg, 'name': p, 'is_dir': isd, 'plain': plain,
                                                   'realpath': real, 'problem': 'REALPATH changes the verdict on a tree without symlinks'},
                                                  size=len(text) * 10 + len(p), bucket=('real', real))
                                    break
                    except util.HarnessBudget:
                        out.stats['watchdog_skipped'] += 1
                if any(isinstance(x, str) for x in segs) or len(segs) > 1:
                    out.nontrivial(('real', text))
    out.sample({'stream': 'real', 'tree': [e[1] + ('/' if e[0] == 'd' else '') for e in REAL_TREE], 'patterns': idx // S})
    return out


def run_newline(desc):
    """The same enumeration over an alphabet that contains a newline, in patterns and in paths: a newline is an ordinary
    character (`.` and `$` of the generated regex must not treat it specially)."""
    out = Outcome()
    out.exhaustive = True
    armed = desc['armed']
    s, S = desc['shard'], desc['of']
    idx = 0
    paths = list(N.all_names('a\n/.', 4))
    cfgs = [{}, {'globstar': True}, {'dot': True, 'globstar': True}, {'matchbase': True}, {'globstar': True, 'matchbase': True, 'dot': True},
            {'nodir': True, 'globstar': True}, {'globstarlong': True, 'dot': True}]
    for segs in enum_pathpats(desc['budget'], atoms=(A.lit('a'), A.lit('\n'), A.ANY, A.STAR, A.lit('.'), A.mkset(True, ('c', 'a')))):
        idx += 1
        if idx % S != s:
            continue
        for pp in (A.PathPat(False, segs, False, 1), A.PathPat(False, segs, True, 1)):
            for j in (0, 1 + idx % (len(cfgs) - 1), 1 + (idx // 5) % (len(cfgs) - 1)):
                cfg = cfgs[j]
                lang.eval_path(pp, cfg, paths, out, armed, PROPERTY, select_c02(cfg), entry=idx % 3, stream='newline')
    out.sample({'stream': 'newline', 'alphabet': 'a\\n/.', 'paths': len(paths), 'patterns': idx // S})
    return out


UNCLOSED = ['@(', '?(', '+(', '*(', '!(', '[', '@(a|', '[!', '+(@(']


def run_unclosed(desc):
    """An opener that is never closed (`@(`, `[`, ...) is literal text; it must not change how the rest of the pattern is read.
    Metamorphic on wcmatch: the pattern with the opener written raw accepts exactly the paths that the pattern with the opener
    escaped accepts - in a segment before and in a segment after the enumerated pattern (globstars included)."""
    out = Outcome()
    out.exhaustive = True
    s, S = desc['shard'], desc['of']
    idx = 0
    cfgs = [{'globstar': True}, {'globstar': True, 'dot': True}, {}, {'globstarlong': True}, {'globstar': True, 'matchbase': True}]
    for segs in enum_pathpats(desc['budget'], atoms=(A.lit('a'), A.ANY, A.STAR), kinds='@*'):
        idx += 1
        if idx % S != s:
            continue
        text = A.render_path(A.PathPat(False, segs, False, 1))
        seqs = [x for x in segs if not isinstance(x, str)]
        alpha, _c = N.representatives(seqs, extra='', cap=2)
        paths = [p_ for p_ in N.all_names(alpha + '/', 4) if not p_.startswith('/')]
        for oi, op in enumerate(UNCLOSED):
            esc = ''.join('\\' + c for c in op)
            for where in ('before', 'after'):
                if where == 'before':
                    raw, lit, names = op + 'x/' + text, esc + 'x/' + text, [op + 'x/' + p_ for p_ in paths]
                else:
                    if ')' in text or ']' in text:
                        continue          # the rest of the pattern would close the opener
                    raw, lit, names = text + '/' + op + 'x', text + '/' + esc + 'x', [p_.rstrip('/') + '/' + op + 'x' for p_ in paths if p_.rstrip('/')]
                if where == 'before' and (')' in text and '(' in op or ']' in text and '[' in op):
                    continue
                cfg = cfgs[(idx + oi) % len(cfgs)]
                fl = lang.gl_flags(cfg) | G.EXTGLOB
                try:
                    with util.watchdog(5):
                        a = set(G.globfilter(names, raw, flags=fl))
                        b = set(G.globfilter(names, lit, flags=fl))
                except util.HarnessBudget:
                    out.stats['watchdog_skipped'] += 1
                    continue
                out.evaluations += len(names)
                if a != b:
                    d = sorted(a ^ b)[0]
                    out.violation({'mode': 'unclosed', 'pattern': raw, 'escaped_form': lit, 'cfg': cfg, 'name': d, 'raw_accepts': d in a,
                                   'problem': 'an unclosed opener changes how the rest of the pattern is read'},
                                  size=len(raw) * 10 + len(d), bucket=('unclosed', op, where))
                elif a and len(a) < len(names) and any(isinstance(x, str) for x in segs):
                    out.nontrivial(('unclosed', raw))
    out.sample({'stream': 'unclosed', 'openers': UNCLOSED, 'patterns': idx // S})
    return out


def variants(segs, idx):
    """The base form always; absolute / trailing / duplicate-separator variants in rotation."""
    yield A.PathPat(False, segs, False, 1)
    r = idx % 4
    if r == 0:
        yield A.PathPat(False, segs, True, 1)
    elif r == 1:
        yield A.PathPat(True, segs, False, 1)
    elif r == 2 and len(segs) > 1:
        yield A.PathPat(False, segs, False, 2)
    elif r == 3:
        yield A.PathPat(True, segs, True, 1)


def configs_for(segs, idx, ncfg):
    has_gs = any(isinstance(s, str) for s in segs)
    pool = CONFIGS if has_gs else [c for c in CONFIGS if not c.get('globstarlong')]
    out = [pool[0]]
    for j in range(1, ncfg):
        c = pool[(idx * 7 + j * 5) % len(pool)]
        if c not in out:
            out.append(c)
    if has_gs and not any(c.get('globstar') for c in out):
        out.append({'globstar': True})
    return out


def run_enum(desc, prop, selector):
    out = Outcome()
    out.exhaustive = True
    armed = desc['armed']
    s, S = desc['shard'], desc['of']
    idx = 0
    for segs in enum_pathpats(desc['budget']):
        idx += 1
        if idx % S != s:
            continue
        seqs = [x for x in segs if not isinstance(x, str)]
        alpha, _complete = N.representatives(seqs, extra='.', cap=3)
        paths = list(N.all_names(alpha + '/', desc['plen']))
        out.stats['patterns'] += 1
        out.stats['patterns_with_globstar'] += any(isinstance(x, str) for x in segs)
        out.stats['patterns_multi_segment'] += len(segs) > 1
        for pp in variants(segs, idx):
            for cfg in configs_for(segs, idx, desc['ncfg']):
                if idx % 2:
                    cfg = dict(cfg, variant=1 + idx % 15)
                lang.eval_path(pp, cfg, paths, out, armed, prop, selector(cfg), entry=idx % 3)
        if len(segs) > 1 and idx % 2 == 0:
            # the same pattern with every separator written as an escaped slash `\/` (same meaning, never slash-less)
            pp = A.PathPat(False, segs, False, 1)
            for cfg in configs_for(segs, idx + 3, 2) + [{'matchbase': True}]:
                lang.eval_path(pp, dict(cfg, escsep=True), paths, out, armed, prop, selector(cfg), entry=idx % 3, stream='escsep')
        if idx % 4 == 1:
            # ... and with an escaped root separator / an escaped trailing separator / a doubled escaped separator
            for pp in (A.PathPat(True, segs, False, 1), A.PathPat(False, segs, True, 1)) + ((A.PathPat(False, segs, False, 2),) if len(segs) > 1 else ()):
                for cfg in configs_for(segs, idx + 5, 2):
                    lang.eval_path(pp, dict(cfg, escsep=True), paths, out, armed, prop, selector(cfg), entry=idx % 3, stream='escsep-root')
        if idx % 997 == s:
            out.sample({'pattern': A.render_path(A.PathPat(False, segs, False, 1)), 'alphabet': alpha + '/', 'paths': len(paths),
                        'stream': 'enum'})
    return out


def run_sets(desc, prop, selector):
    """Bracket expressions can never match a separator in path mode, whatever they contain: every POSIX class (plain,
    negated, next to other items), ranges that span `/`, at the start, in the middle and at the end of a segment."""
    out = Outcome()
    out.exhaustive = True
    armed = desc['armed']
    s, S = desc['shard'], desc['of']
    sets = []
    for name in A.POSIX_NAMES:
        for neg in (False, True):
            sets.append(A.mkset(neg, ('p', name)))
            sets.append(A.mkset(neg, ('c', '_'), ('p', name)))
    sets += [A.mkset(False, ('r', '+', '0')), A.mkset(True, ('r', '0', '9')), A.mkset(False, ('r', '#', '~')), A.mkset(True, ('c', 'a')),
             A.mkset(False, ('r', '.', '/')) if False else A.mkset(False, ('r', '-', '0')), A.mkset(False, ('c', '.'), ('p', 'punct')),
             # reversed ranges denote nothing: a bracket made only of them matches nothing, its negation any one character
             # (which still is a bracket: no separator, no leading dot, no `.`/`..`)
             A.mkset(True, ('r', 'b', 'a')), A.mkset(False, ('r', 'b', 'a')), A.mkset(True, ('r', '9', '0'), ('r', 'z', 'y')),
             A.mkset(True, ('r', 'b', 'a'), ('c', 'x')), A.mkset(False, ('r', 'b', 'a'), ('c', 'x'))]
    shapes = [lambda x: (x,), lambda x: (A.lit('a'), x, A.lit('b')), lambda x: (A.lit('a'), x), lambda x: (x, A.lit('b')), lambda x: (A.STAR, x),
              lambda x: (x, A.STAR), lambda x: (A.ext('@', (x,)),), lambda x: (A.lit('a'), A.ext('*', (x,)), A.lit('b'))]
    paths = ['a/b', '/', 'a/', '/b', 'a.b', 'a_b', 'axb', 'a', 'b', '_', '.', 'a//b', '/a', 'a/b/', 'x/a.b', 'a-b', 'a+b', 'a b', 'ab', '.b', 'a.',
             '..', 'x/.', 'x/..', '.ab', 'x/.b', '..b', '.x', 'x/.x', 'x', 'xb', '.a/b', '.xb']
    idx = 0
    for st_ in sets:
        for sh in shapes:
            idx += 1
            if idx % S != s:
                continue
            seq = A.merge_stars(sh(st_))
            for segs in ((seq,), (A.lits('x'), seq), (seq, A.lits('b'))):
                pp = A.PathPat(False, segs, False, 1)
                for cfg in ({}, {'dot': True}, {'globstar': True, 'matchbase': True}):
                    lang.eval_path(pp, cfg, paths, out, armed, prop, selector(cfg), entry=idx % 3, stream='sets')
    if s == 0:
        # what a separator is belongs to each call: the same slash-less MATCHBASE patterns asked in turn under POSIX and under Windows
        # rules, in both orders, with explicit expectations (a backslash is a separator only under Windows rules)
        table = [('*.py', 'src\\pkg\\mod.py', True, True), ('mod.py', 'src\\pkg\\mod.py', True, False), ('*.py', 'src/pkg/mod.py', True, True), ('b.txt', 'a\\b.txt', True, False),
                 ('b.txt', 'a/b.txt', True, True), ('?', 'x\\y', True, False), ('[ab]', 'q/a', True, True), ('a*', 'd\\ab', True, False),
                 ('mod.py', 'src\\pkg/mod.py', True, True), ('b', 'a\\b', True, False), ('*', 'a\\b', True, True)]
        from ..util import G as _G
        for order in ((_G.FORCEUNIX, _G.FORCEWIN), (_G.FORCEWIN, _G.FORCEUNIX)):
            util.clear_caches()
            for pat, name, want_win, want_unix in table:
                for plat in order + order:
                    for extra in (0, _G.GLOBSTAR, _G.DOTGLOB):
                        got = bool(_G.globmatch(name, pat, flags=_G.MATCHBASE | plat | extra))
                        want = want_win if plat == _G.FORCEWIN else want_unix
                        out.evaluations += 1
                        if got != want:
                            out.violation({'mode': 'gl', 'stream': 'both-styles', 'pattern': pat, 'name': name, 'cfg': {'matchbase': True},
                                           'platform': 'FORCEWIN' if plat == _G.FORCEWIN else 'FORCEUNIX', 'first_asked_under': 'FORCEWIN' if order[0] == _G.FORCEWIN else 'FORCEUNIX',
                                           'flags': _G.MATCHBASE | plat | extra, 'impl': got, 'verdict': R.MUST if want else R.MUSTNOT, 'raw': True,
                                           'problem': 'a slash-less MATCHBASE pattern asked under both platform conventions in one process'},
                                          bucket=('both-styles', pat, name))
            out.nontrivial(('both-styles', order[0]))
    out.sample({'stream': 'sets', 'pattern': 'a[[:punct:]]b', 'paths': paths[:6]})
    return out


def assemble_paths(pp, draw_int, alpha='ab.x'):
    """Paths built from the pattern's own segments: model-guided names per segment joined by 1-2 separators."""
    out = set()
    for _ in range(6):
        parts = []
        for s in pp.segs:
            if isinstance(s, str):
                for _k in range(draw_int(0, 2)):
                    parts.append(''.join(alpha[draw_int(0, len(alpha) - 1)] for _c in range(draw_int(1, 2))))
            else:
                g = N.guided_names(s, draw_int, alphabet=alpha, want=1, maxlen=12)
                parts.append(g[0] if g else 'a')
        parts = [p.replace('/', '') for p in parts]
        parts = [p for p in parts if p]
        if not parts:
            continue
        sep = '/' * draw_int(1, 2)
        p = sep.join(parts)
        out.add(p)
        out.add(p + '/')
        out.add('/' + p)
        if len(parts) > 1:
            out.add('/'.join(parts[1:]))
            out.add('/'.join(parts[:-1]))
            out.add('/'.join(parts[:1] + ['x'] + parts[1:]))
            out.add('/'.join(parts[:1] + ['.h'] + parts[1:]))
            out.add('/'.join(parts[:1] + ['..'] + parts[1:]))
            out.add('/'.join(parts[:1] + ['.'] + parts[1:]))
    return out


def run_hyp(desc, prop, selector):
    from hypothesis import given, strategies as st, seed
    out = Outcome()
    armed = desc['armed']
    big = desc['tier'] == 'thorough'
    seg = A.st_seq(max_budget=5 if big else 4, max_depth=2, max_alts=3, alphabet='abAB.x1-_' + '*?[]()|!+@{}~\\', posix=True)
    pat = st.tuples(st.booleans(), st.lists(st.one_of(seg, seg, seg, st.just(A.GS), st.just(A.GSL)), min_size=1, max_size=4),
                    st.booleans(), st.sampled_from([1, 1, 2]))

    @seed(desc['seed'])
    @util.hyp_settings(desc['n'], shrink=False)
    @given(pat, st.sampled_from(CONFIGS), st.integers(0, 2), st.data())
    def test(t, cfg, entry, data):
        segs = tuple(s for s in t[1] if s)
        segs = tuple(A.GS if (not isinstance(s, str) and s == (A.STAR, A.STAR)) else s for s in segs)
        # a segment made only of a star next to a globstar is fine; empty segment lists are not patterns
        if not segs:
            return
        pp = A.PathPat(t[0], segs, t[2], t[3])
        draw_int = lambda lo, hi: data.draw(st.integers(lo, hi))
        seqs = [x for x in segs if not isinstance(x, str)]
        alpha, _c = N.representatives(seqs, extra='.', cap=2)
        paths = set(N.all_names(alpha + '/', 4))
        paths |= assemble_paths(pp, draw_int)
        paths.discard('')
        paths = sorted(paths)
        out.stats['hyp_patterns'] += 1
        out.stats['hyp_with_globstar'] += any(isinstance(x, str) for x in segs)
        out.stats['hyp_segments>=3'] += len(segs) >= 3
        out.stats['hyp_with_ext'] += any(A.has_ext(x) for x in seqs)
        cfg = dict(cfg)
        if entry == 1 and pp.dup == 1 and len(segs) > 1:
            cfg['escsep'] = True
        elif entry == 2:
            cfg['loose'] = True
        lang.eval_path(pp, cfg, paths, out, armed, prop, selector(cfg), entry=entry, stream='hyp')
        if out.stats['hyp_patterns'] % 53 == 1:
            out.sample({'pattern': A.render_path(pp), 'cfg': cfg, 'paths': len(paths), 'longest': max(paths, key=len), 'stream': 'hyp'})
    test()
    return out


# ---- text-level invariant: needs no model, runs on raw strings ---------------------------------------------

def count_pieces(text):
    """(#non-empty '/'-delimited pieces of the pattern text, whether some '/' lies inside parentheses or brackets)."""
    depth = 0
    bdepth = 0
    inside = False
    i = 0
    pieces = []
    cur = ''
    if text.endswith('\\') and (len(text) - len(text.rstrip('\\'))) % 2 == 1:
        text = text[:-1]          # a lone trailing backslash escapes nothing and is dropped
    while i < len(text):
        c = text[i]
        if c == '\\' and i + 1 < len(text):
            if text[i + 1] == '/':
                if depth or bdepth:
                    inside = True
                pieces.append(cur)
                cur = ''
            else:
                cur += text[i:i + 2]
            i += 2
            continue
        if c == '(':
            depth += 1
        elif c == ')':
            depth = max(0, depth - 1)
        elif c == '[':
            bdepth += 1
        elif c == ']':
            bdepth = max(0, bdepth - 1)      # a `]` never closes a parenthesis (`!(]/)` keeps its `/` inside the group)
        if c == '/':
            if depth or bdepth:
                inside = True
            pieces.append(cur)
            cur = ''
        else:
            cur += c
        i += 1
    pieces.append(cur)
    return len([p for p in pieces if p]), inside


def optional_pieces(text):
    """Number of non-empty pieces that contain an (unescaped) parenthesis: a piece made of groups may match the empty string
    (`a/*()` accepts `a/`), which the statement leaves open (nullable segment), so such pieces are not demanded."""
    n = 0
    for piece in re.split(r'(?<!\\)/', text):
        if piece and re.search(r'(?<!\\)\(', piece):
            n += 1
    return n


def run_textinv(desc):
    """Without GLOBSTAR/MATCHBASE every accepted path (not a bare root) has at most as many non-empty segments as the
    pattern text has non-empty '/'-delimited pieces, and exactly as many when no '/' lies inside brackets/parentheses."""
    out = Outcome()
    alpha = 'a*?/.[]!(|)@\\'
    path_alpha = 'a./'
    paths = list(N.all_names(path_alpha, 5))
    n = 4 if desc['tier'] == 'quick' else 5
    idx = 0
    for tup in itertools.product(alpha, repeat=n):
        idx += 1
        if desc['tier'] == 'quick' and idx % 5:
            continue
        text = ''.join(tup)
        if '/' not in text:
            continue
        for fl, flname in ((G.EXTGLOB, 'EXTGLOB'), (G.EXTGLOB | G.DOTGLOB, 'EXTGLOB|DOTGLOB')):
            try:
                with util.watchdog():
                    acc = G.globfilter(paths, text, flags=fl)
            except Exception:
                continue      # crashes are C10's business
            npieces, inside = count_pieces(text)
            for p in acc:
                segs = R.split_path(p)[1]
                if not segs:
                    continue
                out.evaluations += 1
                bad = len(segs) > npieces or (not inside and len(segs) < npieces - optional_pieces(text))
                if bad:
                    out.violation({'mode': 'textinv', 'pattern': text, 'flags': flname, 'name': p, 'pieces': npieces,
                                   'segments': len(segs)}, size=len(text) * 10 + len(p), bucket=('textinv', len(segs) > npieces))
            if len(acc) > 1:
                out.nontrivial(('textinv', text, flname))
    out.sample({'stream': 'textinv', 'example_pattern': 'a/*(a|.)', 'paths': len(paths)})
    return out


def replay(case):
    if case.get('stream') == 'both-styles':
        util.clear_caches()
        first = G.FORCEWIN if case['first_asked_under'] == 'FORCEWIN' else G.FORCEUNIX
        other = G.FORCEUNIX if first == G.FORCEWIN else G.FORCEWIN
        for plat in (first, other, first, other):
            G.globmatch(case['name'], case['pattern'], flags=(case['flags'] & ~(G.FORCEWIN | G.FORCEUNIX)) | plat)
        got = bool(G.globmatch(case['name'], case['pattern'], flags=case['flags']))
        return got == (case['verdict'] == R.MUST), {'impl': got}
    if case.get('mode') == 'textinv':
        fl = G.EXTGLOB | (G.DOTGLOB if 'DOTGLOB' in case['flags'] else 0)
        got = G.globmatch(case['name'], case['pattern'], flags=fl)
        npieces, inside = count_pieces(case['pattern'])
        segs = R.split_path(case['name'])[1]
        bad = got and (len(segs) > npieces or (not inside and len(segs) < npieces - optional_pieces(case['pattern'])))
        return (not bad), {'impl': got, 'pieces': npieces, 'segments': len(segs)}
    if case.get('mode') == 'unclosed':
        fl = lang.gl_flags(case['cfg']) | G.EXTGLOB
        a = bool(G.globmatch(case['name'], case['pattern'], flags=fl))
        b = bool(G.globmatch(case['name'], case['escaped_form'], flags=fl))
        return a == b, {'raw': a, 'escaped': b}
    if case.get('mode') == 'real':
        from .. import fscommon as FC
        with FC.built_tree(REAL_TREE) as (root, _r):
            fl = FC.cfg_flags(case['cfg'])
            plain = bool(G.globmatch(case['name'] + ('/' if case['is_dir'] else ''), case['pattern'], flags=fl))
            real = bool(G.globmatch(case['name'], case['pattern'], flags=fl | G.REALPATH, root_dir=root))
        return plain == real, {'plain': plain, 'realpath': real}
    return lang.replay_case(case)


def shrink(case):
    if case.get('mode') in ('textinv', 'real', 'unclosed') or case.get('stream') == 'both-styles':
        return case
    return lang.shrink_case(case)
