"""C07 - pattern lists, exclusions, SPLIT and BRACE decompose into single-pattern matches (metamorphic on wcmatch)."""
import os
import itertools

from ..runner import Outcome, HarnessError
from .. import ast as A, ref as R, names as N, lang, util
from ..util import F, G

PROPERTY = 'C07'
RULE = ('case = (inclusion ASTs <= 4, exclusion ASTs <= 3, delivery form, flags, entry point); delivery forms: exclude=, inline '
        '`!p` with NEGATE, inline `-p` with NEGATE|MINUSNEGATE, SPLIT text joined by `|` (with `|` also inside groups, brackets and '
        'escaped), BRACE templates `pre{a,b{c,d}}post` / `{1..3}` / `{x}` / escaped braces whose expansion list is known by '
        'construction; oracle: the combined call must equal any(single inclusion) and not any(single exclusion with DOTMATCH '
        'forced), computed with wcmatch\'s own single-pattern answers on every name up to length 3 over the minterm '
        'representatives (+ "/" in path mode, + "!" "-"); also permutation/duplication invariance, exclusions-only = nothing '
        '(or the NEGATEALL default), translate() list lengths; non-trivial = at least two members after expansion that disagree '
        'with each other on some name')
ASSUMPTIONS = ['single-pattern answers of wcmatch are the building blocks (their own correctness is C01-C03)',
               'brace features beyond sets, nesting and numeric/alpha ranges are exercised only through bracex as a black box']

ALPHABET = 'ab.x!-' + '*?[]()|+@{}\\'


def match_fn(mode):
    if mode == 'fn':
        return (lambda n, p, fl, **kw: F.fnmatch(n, p, flags=fl, **kw)), F
    return (lambda n, p, fl, **kw: G.globmatch(n, p, flags=fl, **kw)), G


def call_entry(mode, entry, names, pats, fl, **kw):
    mod = F if mode == 'fn' else G
    if entry == 0:
        if mode == 'fn':
            return {n for n in names if F.fnmatch(n, pats, flags=fl, **kw)}
        return {n for n in names if G.globmatch(n, pats, flags=fl, **kw)}
    if entry == 1:
        return set((F.filter if mode == 'fn' else G.globfilter)(names, pats, flags=fl, **kw))
    m = mod.compile(pats, flags=fl, **kw)
    return {n for n in names if m.match(n)}


def expected(mode, names, incs, excs, fl, dotflag, nodir=False):
    match, mod = match_fn(mode)
    out = set()
    for n in names:
        ok = any(match(n, p, fl) for p in incs) and not any(match(n, e, fl | dotflag) for e in excs)
        if ok:
            out.add(n)
    return out


def shards(tier, seed, scale=1.0):
    n = 250 if tier == 'quick' else 4000
    n = max(10, int(n * scale))
    out = []
    for s in range(16):
        out.append({'name': 'lists-%d' % s, 'kind': 'lists', 'seed': seed * 1000 + s, 'n': n})
    for s in range(8):
        out.append({'name': 'split-%d' % s, 'kind': 'split', 'seed': seed * 1000 + 100 + s, 'n': n})
        out.append({'name': 'brace-%d' % s, 'kind': 'brace', 'seed': seed * 1000 + 200 + s, 'n': n})
    out.append({'name': 'fixed', 'kind': 'fixed'})
    out.append({'name': 'real', 'kind': 'real'})
    return out


def run_shard(desc):
    k = desc['kind']
    if k == 'lists':
        return run_lists(desc)
    if k == 'split':
        return run_split(desc)
    if k == 'brace':
        return run_brace(desc)
    if k == 'fixed':
        return run_fixed(desc)
    if k == 'real':
        return run_real(desc)
    raise HarnessError(k)


REAL_TREE = [('d', 'docs'), ('d', 'docs/api'), ('f', 'docs/x.md'), ('f', 'docs/api/y.md'), ('d', 'src'), ('f', 'src/m.py'), ('f', 'a.txt'), ('f', 'b.md'),
             ('d', '.hd'), ('f', '.hd/z.md'), ('f', '.h'), ('d', 'empty'), ('l', 'ldocs', 'docs'), ('l', 'lf', 'a.txt')]
REAL_INC = ['*', '**', 'docs', 'd*', '*/*', '**/*.md', '*/', '**/', '.*', 'docs/**']
REAL_EXC = ['*/', 'docs/', '**/', '.*/', 'd*/', '*/*/', '*.txt', '**/*.md', 'docs', 'docs/*/', 'l*', '.*', 'empty/']


def run_real(desc):
    """The same decomposition with REALPATH on a real tree: a list (inclusions, exclusions inline or through exclude=) accepts a
    path exactly when some inclusion accepts it and no exclusion does - each judged alone, with REALPATH, on the same spelling of
    the path (directories are named with and without their trailing separator)."""
    from .. import fscommon as FC
    import itertools
    out = Outcome()
    out.exhaustive = True
    with FC.built_tree(REAL_TREE) as (root, _r):
        names = []
        for e in REAL_TREE:
            names.append(e[1])
            if e[0] == 'd' or (e[0] == 'l' and e[2] == 'docs'):
                names.append(e[1] + '/')
        names += ['zz', 'docs/zz', 'ldocs/x.md', 'ldocs/api/']
        for base in (G.REALPATH, G.REALPATH | G.GLOBSTAR, G.REALPATH | G.GLOBSTAR | G.DOTGLOB, G.REALPATH | G.GLOBSTAR | G.FOLLOW,
                     G.REALPATH | G.GLOBSTAR | G.NODIR, G.REALPATH | G.MATCHBASE):
            one = {}
            for p_ in set(REAL_INC) | set(REAL_EXC):
                one[(p_, False)] = set(G.globfilter(names, p_, flags=base & ~G.NODIR, root_dir=root))
                # an exclusion is a pure text match (no symlink rule, DOTGLOB forced) on the path as REALPATH normalises it: a
                # directory carries its trailing separator
                pure = (base & ~(G.NODIR | G.REALPATH | G.FOLLOW)) | G.DOTGLOB
                one[(p_, True)] = {n_ for n_ in names if os.path.lexists(os.path.join(root, n_)) and G.globmatch(
                    n_ + ('/' if os.path.isdir(os.path.join(root, n_)) and not n_.endswith('/') else ''), p_, flags=pure)}
            for inc in itertools.chain(([i_] for i_ in REAL_INC), (list(c_) for c_ in itertools.combinations(REAL_INC[:6], 2))):
                for exc in itertools.chain(([e_] for e_ in REAL_EXC), (list(c_) for c_ in itertools.combinations(REAL_EXC[:7], 2))):
                    want = set()
                    for n_ in names:
                        ok = any(n_ in one[(i_, False)] for i_ in inc) and not any(n_ in one[(e_, True)] for e_ in exc)
                        if ok and (base & G.NODIR) and (n_.endswith('/') or os.path.isdir(os.path.join(root, n_))):
                            ok = False
                        if ok:
                            want.add(n_)
                    forms = {'exclude=': lambda: G.globfilter(names, inc, flags=base, exclude=exc, root_dir=root),
                             'inline': lambda: G.globfilter(names, inc + ['!' + e_ for e_ in exc], flags=base | G.NEGATE, root_dir=root),
                             'inline-first': lambda: G.globfilter(names, ['!' + e_ for e_ in exc] + inc, flags=base | G.NEGATE, root_dir=root),
                             'compile': lambda: G.compile(inc, flags=base, exclude=exc).filter(names, root_dir=root)}
                    for form, fn in forms.items():
                        got = set(fn())
                        out.evaluations += len(names)
                        if got != want:
                            d = sorted(got ^ want)[0]
                            out.violation({'kind': 'real', 'mode': 'gl', 'include': inc, 'exclude': exc, 'flags': base, 'form': form, 'name': d,
                                           'impl': d in got, 'want': d in want,
                                           'problem': 'with REALPATH the list does not decompose into single-pattern matches'},
                                          size=len(str(inc)) + len(str(exc)), bucket=('real', form, d in got))
                            break
                    out.nontrivial(('real', tuple(inc), tuple(exc), base))
    out.sample({'stream': 'real', 'inclusions': REAL_INC, 'exclusions': REAL_EXC, 'names': len(names)})
    return out


RAW_TEXTS = ['!keep', '-keep', '!a', '-a', '!.a', '!*', '(a)', '(a', '(', 'a)', ')', '(a|b)', '+a', '@a', '~a', '{a', 'a-b', 'a!b', '[a', 'a]', '()', '(!a)', '(-a)', 'x(a)', '\\(a\\)', '(.a)', '(a)*',
             '?(a', '*(', '!(a']


def _strategies():
    """Pattern pieces: rendered ASTs, their loosely escaped spelling, and raw texts whose first character is a bare
    parenthesis or another character that is special only in combination."""
    from hypothesis import strategies as st
    seq = A.st_seq(max_budget=4, max_depth=2, max_alts=2, alphabet=ALPHABET, posix=False, ranges=False)
    return st, seq


def st_text(ext_known=None):
    from hypothesis import strategies as st
    _st, seq = _strategies()
    return st.one_of(seq.map(lambda s: ('ast', s)), seq.map(lambda s: ('ast', s)), seq.map(lambda s: ('loose', s)),
                     st.sampled_from(RAW_TEXTS).map(lambda t: ('raw', t)))


def text_of(item, ext):
    kind, v = item
    if kind == 'raw':
        return v
    if not v:
        return ''
    if not ext:
        return A.render_plain(A.flatten_ext(v))
    if kind == 'loose':
        t = A.render_loose(v)
        return t if '|' not in t.replace('\\|', '') or True else A.render(v)
    return A.render(v)


def base_flags(mode, ext, dot, extra_bits):
    mod = F if mode == 'fn' else G
    fl = (mod.EXTMATCH if ext else 0) | (mod.DOTMATCH if dot else 0)
    for b in extra_bits:
        fl |= b
    return fl


def names_for(seqs, mode, maxlen=3):
    alpha, _c = N.representatives(seqs, extra='.!', cap=4)
    if '-' not in alpha:
        alpha = alpha[:3] + '-'
    names = list(N.all_names(alpha + ('/' if mode == 'gl' else ''), maxlen))
    # ... and a few of them with a newline at the end (an ordinary character: no pattern of a list may treat `name` and
    # `name + newline` alike unless it says so)
    names += [n + '\n' for n in names[:40:2] if n and not n.endswith('/')]
    return names


def run_lists(desc):
    from hypothesis import given, seed
    st, seq = _strategies()
    out = Outcome()

    @seed(desc['seed'])
    @util.hyp_settings(desc['n'], shrink=False)
    @given(st.lists(st_text(), min_size=0, max_size=4), st.lists(st_text(), min_size=0, max_size=3), st.sampled_from(['fn', 'gl']),
           st.booleans(), st.booleans(), st.integers(0, 4), st.integers(0, 2), st.booleans(), st.booleans(), st.randoms(use_true_random=False))
    def test(inc_items, exc_items, mode, ext, dot, form, entry, negateall, nodir, rnd):
        pi = [t for t in (text_of(it, ext) for it in inc_items) if t]
        pe = [t for t in (text_of(it, ext) for it in exc_items) if t]
        incs = [it[1] for it in inc_items if it[0] != 'raw' and it[1]]
        excs = [it[1] for it in exc_items if it[0] != 'raw' and it[1]]
        if not pi and not pe:
            return
        out.stats['raw_or_loose_pieces'] += sum(1 for it in inc_items + exc_items if it[0] != 'ast')
        if form in (3, 4) and not pe:
            form = 0
        if form in (0, 3, 4):
            # with exclude= the NEGATE/NEGATEALL flags are dropped: every text is an ordinary pattern, whatever it starts with.
            # The single-pattern oracle below evaluates them without NEGATE, so texts that begin with a marker are fine.
            pass
        if form in (1, 2):
            # an inclusion pattern that begins with the exclusion marker must be written escaped to stay an inclusion
            # (`!(` under EXTMATCH is exempt and is produced unescaped by the renderer)
            marker = '!' if form == 1 else '-'
            pi = ['\\' + p if p.startswith(marker) and not (marker == '!' and ext and p.startswith('!(')) else p for p in pi]
            if form == 1 and ext:
                # `!` + `(...` would spell an extended group, never an exclusion: such an exclusion must escape its parenthesis
                pe = ['\\' + e if e.startswith('(') else e for e in pe]
        mod = F if mode == 'fn' else G
        dotflag = mod.DOTMATCH
        nodir = nodir and mode == 'gl'
        fl = base_flags(mode, ext, dot, [])
        names = names_for(incs + excs, mode) + ['(a)', '(a', 'a)', '(', ')', '+a', '(a|b)', 'x(a)', '(.a)', '(a)a', '!keep', '-keep', 'keep', '!a', '-a', '!.a']
        match, _ = match_fn(mode)
        case = {'mode': mode, 'include': pi, 'exclude': pe, 'ext': ext, 'dot': dot, 'form': form, 'entry': entry,
                'negateall': negateall, 'nodir': nodir, 'kind': 'lists'}
        try:
            with util.watchdog(8):
                want = expected(mode, names, pi, pe, fl, dotflag)
                if nodir:
                    want = {n for n in want if not (n.endswith('/') or R.split_path(n)[1][-1:] in (['.'], ['..']))}
                    fl_call = fl | G.NODIR
                else:
                    fl_call = fl
                if not pi:
                    # exclusions only
                    if form == 0:
                        want = set()     # exclude= drops NEGATE/NEGATEALL: no inclusion pattern, nothing matches
                    elif negateall:
                        star = '*' if mode == 'fn' else '**'
                        gfl = fl | (G.GLOBSTAR if mode == 'gl' else 0)
                        want = {n for n in names if match(n, star, gfl) and not any(match(n, e, fl | dotflag) for e in pe)}
                        if nodir:
                            want = {n for n in want if not (n.endswith('/') or R.split_path(n)[1][-1:] in (['.'], ['..']))}
                    else:
                        want = set()
                if form in (3, 4):
                    # exclude= given while NEGATE (form 3) or NEGATE|MINUSNEGATE (form 4) is set as well
                    extra = mod.NEGATE | (mod.MINUSNEGATE if form == 4 else 0) | (mod.NEGATEALL if negateall else 0)
                    got = call_entry(mode, entry, names, pi, fl_call | extra, exclude=pe)
                    if not pi:
                        want = set()
                elif form == 0:
                    if not pe and not pi:
                        return
                    got = call_entry(mode, entry, names, pi, fl_call | (mod.NEGATEALL if negateall else 0),
                                     exclude=pe if pe else None) if pe else call_entry(mode, entry, names, pi, fl_call)
                elif form == 1:
                    lst = pi + ['!' + e for e in pe]
                    rnd.shuffle(lst)
                    if rnd.random() < 0.3 and lst:
                        lst.append(lst[0])
                    got = call_entry(mode, entry, names, lst, fl_call | mod.NEGATE | (mod.NEGATEALL if negateall else 0))
                    case['list'] = lst
                else:
                    lst = pi + ['-' + e for e in pe]
                    rnd.shuffle(lst)
                    got = call_entry(mode, entry, names, lst, fl_call | mod.NEGATE | mod.MINUSNEGATE | (mod.NEGATEALL if negateall else 0))
                    case['list'] = lst
        except util.HarnessBudget:
            out.stats['watchdog_skipped'] += 1
            return
        except Exception as e:
            out.stats['exception_skipped:' + type(e).__name__] += 1
            return
        out.evaluations += len(names)
        out.stats['cases'] += 1
        out.stats['cases_exclusions_only'] += not pi
        out.stats['cases_form_%d' % form] += 1
        if got != want:
            diff = sorted(got ^ want)
            out.violation(dict(case, name=diff[0], impl=diff[0] in got, want=diff[0] in want, ndiff=len(diff)),
                          size=sum(map(len, pi + pe)) * 10 + len(diff[0]), bucket=('lists', form, mode, bool(pi), diff[0] in got))
            return
        # flags whose feature the pattern does not use are inert: one piece under SPLIT / BRACE is the pattern itself
        if len(pi) == 1 and not pe and not nodir:
            t = pi[0]
            bare = t.replace('\\\\', '').replace('\\|', '').replace('\\{', '').replace('\\}', '')
            inert = []
            if '|' not in bare and '[' not in bare:
                inert.append(('SPLIT', mod.SPLIT))
            if '{' not in bare and '}' not in bare:
                inert.append(('BRACE', mod.BRACE))
            if not t.startswith('!') and not t.startswith('-'):
                inert.append(('NEGATE', mod.NEGATE))
                inert.append(('NEGATE|MINUSNEGATE', mod.NEGATE | mod.MINUSNEGATE))
            base_acc = call_entry(mode, entry, names, t, fl)
            for label, bit in inert:
                acc2 = call_entry(mode, entry, names, t, fl | bit)
                out.evaluations += len(names)
                if acc2 != base_acc:
                    dd = sorted(acc2 ^ base_acc)[0]
                    out.violation(dict(case, problem='flag %s changes the meaning of a pattern that does not use its feature' % label, name=dd,
                                       impl=dd in acc2, want=dd in base_acc), size=len(t) * 10, bucket=('inert', label, mode))
                    return
        # translate list lengths
        if form == 0 and pi:
            t_inc, t_exc = mod.translate(pi, flags=fl_call, **({'exclude': pe} if pe else {}))
            if len(t_inc) != len(set(pi)) or len(t_exc) != len(set(pe)) + (1 if nodir else 0):
                out.violation(dict(case, problem='translate list lengths', got=[len(t_inc), len(t_exc)],
                                   want=[len(set(pi)), len(set(pe)) + (1 if nodir else 0)]), bucket=('translate-len', mode))
                return
        members = [set(n for n in names if match(n, p, fl)) for p in pi]
        if len(pi) + len(pe) >= 2 and (len({frozenset(m) for m in members}) > 1 or pe):
            out.nontrivial(('lists', mode, tuple(pi), tuple(pe), form, ext, dot))
        if out.stats['cases'] % 71 == 1:
            out.sample(dict(case, names=len(names), accepted=len(got)))
    test()
    return out


def run_split(desc):
    from hypothesis import given, seed
    st, seq = _strategies()
    out = Outcome()

    # half of the cases draw bracket expressions with POSIX classes, ranges, `|` and `]` members (written bare where the syntax
    # allows it): a `|` inside a bracket expression is not a place to split
    seq2 = A.st_seq(max_budget=4, max_depth=2, max_alts=2, alphabet='ab.x|[]', posix=True, ranges=True, set_alphabet='ab|]^!-[.|')

    @seed(desc['seed'])
    @util.hyp_settings(desc['n'], shrink=False)
    @given(st.one_of(st.lists(seq, min_size=1, max_size=4), st.lists(seq2, min_size=1, max_size=3)), st.sampled_from(['fn', 'gl']), st.booleans(),
           st.integers(0, 2), st.booleans(), st.sampled_from([0, 0, 2, 3, 6, 7]))
    def test(pieces, mode, dot, entry, ext, variant):
        pieces = [s for s in pieces if s]
        if not pieces:
            return
        if ext:
            render = lambda s: A.render(s, variant=variant)
        else:
            # a bar that is not inside a bracket expression is escaped; one inside stays as it is
            render = lambda s: ''.join(A.render_set(n, variant) if n[0] == 'set' else A.render_plain((n,)).replace('|', '\\|') for n in A.flatten_ext(s))
        texts = [render(s) for s in pieces]
        joined = '|'.join(texts)
        mod = F if mode == 'fn' else G
        fl = base_flags(mode, ext, dot, [])
        names = names_for(pieces, mode)
        match, _ = match_fn(mode)
        case = {'mode': mode, 'pieces': texts, 'joined': joined, 'dot': dot, 'entry': entry, 'kind': 'split', 'ext': ext}
        try:
            with util.watchdog(8):
                want = {n for n in names if any(match(n, p, fl) for p in texts)}
                got = call_entry(mode, entry, names, joined, fl | mod.SPLIT)
                got_list = call_entry(mode, entry, names, texts, fl | mod.SPLIT)
        except util.HarnessBudget:
            out.stats['watchdog_skipped'] += 1
            return
        except Exception as e:
            out.stats['exception_skipped:' + type(e).__name__] += 1
            return
        out.evaluations += len(names)
        out.stats['cases'] += 1
        out.stats['split_with_inner_bar'] += any('|' in t for t in texts)
        out.stats['split_with_bar_in_bracket'] += any(n[0] == 'set' and any(it == ('c', '|') for it in n[2]) for s in pieces for n in s)
        for label, g in (('joined', got), ('list-with-SPLIT', got_list)):
            if g != want:
                diff = sorted(g ^ want)
                out.violation(dict(case, name=diff[0], impl=diff[0] in g, want=diff[0] in want, which=label),
                              size=len(joined) * 10, bucket=('split', mode, label, diff[0] in g))
                return
        if len(texts) >= 2:
            out.nontrivial(('split', mode, joined, dot))
        if out.stats['cases'] % 71 == 1:
            out.sample(dict(case, names=len(names), accepted=len(got)))
    test()
    return out


# --- brace templates ---------------------------------------------------------------------------------------
# template: list of parts; part = ('t', text) | ('b', [template, ...]) | ('r', lo, hi)

def tpl_render(tpl):
    out = ''
    for p in tpl:
        if p[0] == 't':
            out += p[1]
        elif p[0] == 'b':
            out += '{' + ','.join(tpl_render(a) for a in p[1]) + '}'
        else:
            out += '{%s..%s}' % (p[1], p[2])
    return out


def tpl_expand(tpl):
    res = ['']
    for p in tpl:
        if p[0] == 't':
            res = [r + p[1] for r in res]
        elif p[0] == 'b':
            alts = []
            for a in p[1]:
                alts.extend(tpl_expand(a))
            res = [r + a for r in res for a in alts]
        else:
            lo, hi = p[1], p[2]
            if lo.isdigit():
                a, b = int(lo), int(hi)
                rng = range(a, b + 1) if a <= b else range(a, b - 1, -1)
                vals = [str(v) for v in rng]
            else:
                a, b = ord(lo), ord(hi)
                rng = range(a, b + 1) if a <= b else range(a, b - 1, -1)
                vals = [chr(v) for v in rng]
            res = [r + v for r in res for v in vals]
    return res


def run_brace(desc):
    from hypothesis import given, seed, strategies as st
    out = Outcome()
    # brace-safe pattern pieces: no comma, no braces except escaped, no '..'
    seq = A.st_seq(max_budget=3, max_depth=1, max_alts=2, alphabet='abx.!-*?[]()|+@\\', posix=False, ranges=False)

    def text_of(s):
        t = A.render(s)
        return t
    piece = seq.map(text_of).filter(lambda t: '..' not in t and ',' not in t)
    part_t = piece.map(lambda t: ('t', t))
    rng = st.sampled_from([('r', '1', '3'), ('r', 'a', 'c'), ('r', '3', '1'), ('r', '9', '11')])

    def tpl(depth):
        if depth >= 2:
            return st.lists(part_t, min_size=1, max_size=2)
        sub = st.deferred(lambda: tpl(depth + 1))
        brace = st.lists(sub, min_size=2, max_size=3).map(lambda alts: ('b', alts))
        # (`\\\\` is an escaped backslash: a brace right after it is NOT escaped)
        return st.lists(st.one_of(part_t, part_t, brace, rng, st.just(('t', '{x}')), st.just(('t', '\\{ab\\}')), st.just(('t', '\\\\')),
                                  brace), min_size=1, max_size=3)

    @seed(desc['seed'])
    @util.hyp_settings(desc['n'], shrink=False)
    @given(tpl(0), st.sampled_from(['fn', 'gl']), st.booleans(), st.integers(0, 2), st.booleans())
    def test(t, mode, dot, entry, split):
        text = tpl_render(t)
        exp = tpl_expand(t)
        if len(exp) > 60:
            return
        mod = F if mode == 'fn' else G
        fl = base_flags(mode, True, dot, [mod.SPLIT] if split else [])
        names = list(N.all_names('ab.x1' + ('/' if mode == 'gl' else ''), 3)) + ['{x}', 'a{x}', '{ab}', '{a,b}', '11', '10', '9', 'x{x}x',
                                                                                        '\\', '\\a', '\\b', '\\x', '\\1', '\\2', 'a\\b', '\\{a,b}', '\\ab', 'a\\', '\\.']
        match, _ = match_fn(mode)
        case = {'mode': mode, 'template': text, 'expansions': exp[:20], 'dot': dot, 'entry': entry, 'split': split, 'kind': 'brace'}
        try:
            with util.watchdog(8):
                want = {n for n in names if any(match(n, p, fl) for p in exp)}
                got = call_entry(mode, entry, names, text, fl | mod.BRACE)
                # the bytes twin must expand the same way
                t_inc, _t_exc = mod.translate(text, flags=fl | mod.BRACE)
                t_want = mod.translate(list(dict.fromkeys(exp)), flags=fl)[0]
        except util.HarnessBudget:
            out.stats['watchdog_skipped'] += 1
            return
        except Exception as e:
            out.stats['exception_skipped:' + type(e).__name__] += 1
            return
        out.evaluations += len(names)
        out.stats['cases'] += 1
        out.stats['brace_nested'] += any(p[0] == 'b' and any(q[0] == 'b' for a in p[1] for q in a) for p in t)
        out.stats['brace_with_range'] += any(p[0] == 'r' for p in t)
        out.stats['brace_after_escaped_backslash'] += '\\\\{' in text
        if got != want:
            diff = sorted(got ^ want)
            out.violation(dict(case, name=diff[0], impl=diff[0] in got, want=diff[0] in want), size=len(text) * 10,
                          bucket=('brace', mode, diff[0] in got))
            return
        if not split and sorted(t_inc) != sorted(t_want):
            out.violation(dict(case, problem='translate(BRACE) differs from translate(list of expansions)', got=len(t_inc), want=len(t_want)),
                          size=len(text) * 10, bucket=('brace-translate', mode))
            return
        if len(set(exp)) >= 2:
            out.nontrivial(('brace', mode, text, dot, split))
        if out.stats['cases'] % 71 == 1:
            out.sample(dict(case, names=len(names), accepted=len(got)))
    test()
    return out


FIXED = [
    # (mode, patterns, flags-names, name, expected) - the special spellings of the statement, as fixed points
    ('fn', ['!(a)'], ['NEGATE', 'EXTMATCH'], 'b', True),          # `!(` is never an exclusion under EXTMATCH
    ('fn', ['!(a)'], ['NEGATE', 'EXTMATCH'], 'a', False),
    ('fn', ['*', '!a'], ['NEGATE'], 'a', False),
    ('fn', ['*', '!a'], ['NEGATE'], 'b', True),
    ('fn', ['*', '\\!a'], ['NEGATE'], '!a', True),
    ('fn', ['*', '-a'], ['NEGATE', 'MINUSNEGATE'], 'a', False),
    ('fn', ['*', '!a'], ['NEGATE', 'MINUSNEGATE'], 'a', True),     # `!` is not the exclusion marker under MINUSNEGATE
    ('fn', ['*', '-(a)'], ['NEGATE', 'MINUSNEGATE', 'EXTMATCH'], '(a)', False),   # only `!(` is exempt, `-(` is an exclusion
    ('fn', ['*', '-(a)'], ['NEGATE', 'MINUSNEGATE'], '(a)', False),
    ('fn', ['*', '!(a)'], ['NEGATE'], '(a)', False),                # without EXTMATCH `!(a)` is the exclusion of `(a)`
    ('fn', ['!a'], ['NEGATE'], 'b', False),                         # exclusions alone match nothing
    ('fn', ['!a'], ['NEGATE', 'NEGATEALL'], 'b', True),
    # an empty piece is an inclusion (that matches nothing): the implicit match-everything of NEGATEALL is for exclusion-ONLY lists
    ('fn', ['', '!b'], ['NEGATE', 'NEGATEALL'], 'a', False),
    ('fn', ['!b', ''], ['NEGATE', 'NEGATEALL'], 'a', False),
    ('fn', ['!b|'], ['NEGATE', 'NEGATEALL', 'SPLIT'], 'a', False),
    ('fn', ['|!b'], ['NEGATE', 'NEGATEALL', 'SPLIT'], 'a', False),
    ('fn', ['{!b,!c}|'], ['NEGATE', 'NEGATEALL', 'SPLIT', 'BRACE'], 'a', False),
    ('gl', ['', '!b'], ['NEGATE', 'NEGATEALL'], 'a', False),
    ('gl', ['!b|'], ['NEGATE', 'NEGATEALL', 'SPLIT'], 'x/a', False),
    ('fn', ['!b|!c'], ['NEGATE', 'NEGATEALL', 'SPLIT'], 'a', True),
    ('fn', ['!a'], ['NEGATE', 'NEGATEALL'], '.b', False),
    ('fn', ['!a'], ['NEGATE', 'NEGATEALL', 'DOTMATCH'], '.b', True),
    ('gl', ['!a'], ['NEGATE', 'NEGATEALL'], 'x/b', True),           # the implicit inclusion is `**` with GLOBSTAR
    ('fn', ['a|b'], ['SPLIT'], 'b', True),
    ('fn', ['a\\|b'], ['SPLIT'], 'b', False),
    ('fn', ['a\\|b'], ['SPLIT'], 'a|b', True),
    ('fn', ['[|]'], ['SPLIT'], '|', True),
    ('fn', ['@(a|b)'], ['SPLIT', 'EXTMATCH'], 'b', True),
    ('fn', ['@(a|b)'], ['SPLIT', 'EXTMATCH'], '@(a', False),
    ('fn', ['{a,b}'], ['BRACE'], 'b', True),
    ('fn', ['{a,b}'], [], '{a,b}', True),
    ('fn', ['{x}'], ['BRACE'], '{x}', True),
    ('fn', ['{a|b,c}'], ['BRACE', 'SPLIT'], 'b', True),              # braces first, then split
    ('fn', ['*'], [], '.a', False),
    ('fn', ['.*', '!.a'], ['NEGATE'], '.a', False),                  # exclusion sees dot files though DOTMATCH is off
    ('fn', ['.*', '!*a'], ['NEGATE'], '.a', False),
]


def run_fixed(desc):
    out = Outcome()
    for mode, pats, fnames, name, want in FIXED:
        table = util.FN_FLAGS if mode == 'fn' else util.GL_FLAGS
        fl = util.flags_of(fnames, table)
        for entry in (0, 1, 2):
            got = name in call_entry(mode, entry, [name], pats, fl)
            out.evaluations += 1
            if got != want:
                out.violation({'kind': 'fixed', 'mode': mode, 'patterns': pats, 'flags': fnames, 'name': name, 'want': want, 'impl': got,
                               'entry': entry}, bucket=('fixed', tuple(pats), name))
            # the same list as bytes, given as a list and as a tuple
            if all(p_.isascii() for p_ in pats) and name.isascii() and 'RAWCHARS' not in fnames:
                for conv in (list, tuple):
                    bp = conv(p_.encode() for p_ in pats)
                    try:
                        bgot = name.encode() in call_entry(mode, entry, [name.encode()], bp, fl)
                    except Exception as e:
                        bgot = '<%s>' % type(e).__name__
                    out.evaluations += 1
                    if bgot != want:
                        out.violation({'kind': 'fixed', 'mode': mode, 'patterns': pats, 'flags': fnames, 'name': name, 'want': want, 'impl': bgot, 'entry': entry,
                                       'bytes': conv.__name__, 'problem': 'the same list as bytes is answered differently'}, bucket=('fixed-bytes', tuple(pats), name))
                        break
        out.nontrivial(('fixed', tuple(pats), tuple(fnames), name))
    # SPLIT next to brackets: a `|` splits unless it stands inside a bracket expression that really is one - in path mode a bracket
    # that contains a separator (bare or escaped) is not a bracket expression, so the `|` after it splits
    raw_split = [('gl', '[a\\/|b]', ['[a\\/', 'b]']), ('gl', 'x|[!\\/|b]', ['x', '[!\\/', 'b]']), ('gl', '[a/|b]', ['[a/', 'b]']), ('fn', '[a\\/|b]', ['[a\\/|b]']),
                 ('gl', '[a|b]', ['[a|b]']), ('fn', '[a|b]', ['[a|b]']), ('gl', 'c|[a|b]|d', ['c', '[a|b]', 'd']), ('gl', '[a\\]|b]', ['[a\\]|b]']),
                 ('gl', '[[:alpha:]|]|b', ['[[:alpha:]|]', 'b']), ('gl', 'a\\/[|]|b', ['a\\/[|]', 'b']), ('gl', '[a\\/|b]|[c|d]', ['[a\\/', 'b]', '[c|d]']),
                 ('fn', '[]|]|b', ['[]|]', 'b']), ('gl', '[!]|]|b', ['[!]|]', 'b']), ('fn', '[a[:digit:]|x]|b', ['[a[:digit:]|x]', 'b']), ('fn', '[^|]|b', ['[^|]', 'b']),
                 ('fn', '[[:alpha:]|b', ['[[:alpha:]', 'b']), ('fn', 'a|[[:alpha:][:digit:]|]', ['a', '[[:alpha:][:digit:]|]']),
                 # a bar between the `[` and the separator that shows the `[` to be an ordinary character is a top-level bar
                 ('gl', '[a|b/c]', ['[a', 'b/c]']), ('gl', 'x[|y/z]', ['x[', 'y/z]']), ('gl', '[a|b|c/d]|e', ['[a', 'b', 'c/d]', 'e']), ('fn', '[a|b/c]', ['[a|b/c]']),
                 ('gl', '[!a|b/c]', ['[!a', 'b/c]']), ('gl', '[a|b\\/c]', ['[a', 'b\\/c]']),
                 # a group that never closes is no group: its bars are top-level, whatever follows
                 ('fn', '@(a|[b]c', ['@(a', '[b]c']), ('gl', 'x|@(a|[b]c', ['x', '@(a', '[b]c']), ('fn', '*(a|[|]c|d', ['*(a', '[|]c', 'd']),
                 ('fn', '@(a|[b]c)|d', ['@(a|[b]c)', 'd']), ('fn', '@(a|[b', ['@(a', '[b']), ('fn', '@(a|\\)[b]|c', ['@(a', '\\)[b]', 'c']),
                 # under Windows rules an escaped backslash is a separator as well (path mode only)
                 ('gl', '[a\\\\|b]c', ['[a\\\\', 'b]c'], 'FORCEWIN'), ('gl', '[a\\\\|b]c', ['[a\\\\|b]c'], 'FORCEUNIX'), ('gl', '[a/|b]c', ['[a/', 'b]c'], 'FORCEWIN'),
                 ('fn', '[a\\\\|b]c', ['[a\\\\|b]c'], 'FORCEWIN'), ('gl', 'x|[a\\/|b]', ['x', '[a\\/', 'b]'], 'FORCEWIN'), ('gl', '[a|b]c|d', ['[a|b]c', 'd'], 'FORCEWIN')]
    rs_names = ['[a/', 'b]', '[a/|b]', 'x', '[!/', 'a', 'b', '|', 'c', 'd', 'a/|', 'a/b', '[a|b]', ']', 'a]', '|]', 'a/[', 'a/|', '[a', '1', '[]', '[', '5|]', '[1',
                'b]c', '[a\\', '\\c', '|c', 'ac', 'bc', '[a\\|b]c', '[A/', 'B]C']
    for row in raw_split:
        mode, joined, pieces = row[:3]
        mod = F if mode == 'fn' else G
        match, _ = match_fn(mode)
        plat = getattr(mod, row[3]) if len(row) > 3 else 0
        for extra in (plat, plat | mod.EXTMATCH, plat | mod.DOTMATCH, plat | mod.NEGATE):
            for entry in (0, 1, 2):
                out.evaluations += 1
                want = {n_ for n_ in rs_names if any(match(n_, p_, extra) for p_ in pieces)}
                got = call_entry(mode, entry, rs_names, joined, extra | mod.SPLIT)
                if got != want:
                    d = sorted(got ^ want)[0]
                    out.violation({'kind': 'rawsplit', 'mode': mode, 'joined': joined, 'pieces': pieces, 'flags': extra, 'name': d, 'impl': d in got,
                                   'want': d in want, 'entry': entry, 'problem': 'SPLIT text differs from the list of its pieces'},
                                  bucket=('rawsplit', joined))
                    break
        out.nontrivial(('rawsplit', mode, joined))
    out.sample({'kind': 'fixed', 'patterns': FIXED[0][1], 'flags': FIXED[0][2], 'name': FIXED[0][3], 'expected': FIXED[0][4]})
    return out


def replay(case):
    util.clear_caches()
    kind = case.get('kind')
    mode = case['mode']
    mod = F if mode == 'fn' else G
    match, _ = match_fn(mode)
    if kind == 'real':
        r = run_real({})
        mine = [v[2] for v in r.violations if v[2].get('include') == case['include'] and v[2].get('exclude') == case['exclude']]
        return (not mine), [dict(name=v_['name'], form=v_['form']) for v_ in mine][:3]
    if kind == 'rawsplit':
        want = any(match(case['name'], p_, case['flags']) for p_ in case['pieces'])
        got = case['name'] in call_entry(mode, case.get('entry', 0), [case['name']], case['joined'], case['flags'] | mod.SPLIT)
        return got == want, {'impl': got, 'want': want}
    if kind == 'fixed':
        table = util.FN_FLAGS if mode == 'fn' else util.GL_FLAGS
        got = case['name'] in call_entry(mode, case.get('entry', 0), [case['name']], case['patterns'], util.flags_of(case['flags'], table))
        return got == case['want'], {'impl': got}
    n = case.get('name')
    if kind == 'lists':
        fl = base_flags(mode, case['ext'], case['dot'], [])
        pi, pe = case['include'], case['exclude']
        if 'problem' in case:
            nodir = case['nodir']
            t_inc, t_exc = mod.translate(pi, flags=fl | (G.NODIR if nodir else 0), **({'exclude': pe} if pe else {}))
            ok = len(t_inc) == len(set(pi)) and len(t_exc) == len(set(pe)) + (1 if nodir else 0)
            return ok, {'lengths': [len(t_inc), len(t_exc)]}
        want = n in expected(mode, [n], pi, pe, fl, mod.DOTMATCH)
        nodir = case['nodir']
        if nodir:
            want = want and not (n.endswith('/') or R.split_path(n)[1][-1:] in (['.'], ['..']))
        flc = fl | (G.NODIR if nodir else 0) | (mod.NEGATEALL if case['negateall'] else 0)
        form = case['form']
        if not pi:
            if form != 0 and case['negateall']:
                star = '*' if mode == 'fn' else '**'
                want = match(n, star, fl | (G.GLOBSTAR if mode == 'gl' else 0)) and not any(match(n, e, fl | mod.DOTMATCH) for e in pe)
                if nodir:
                    want = want and not (n.endswith('/') or R.split_path(n)[1][-1:] in (['.'], ['..']))
            else:
                want = False
        if form in (3, 4):
            got = n in call_entry(mode, case['entry'], [n], pi, flc | mod.NEGATE | (mod.MINUSNEGATE if form == 4 else 0), exclude=pe)
            if not pi:
                want = False
        elif form == 0:
            got = n in call_entry(mode, case['entry'], [n], pi, flc, **({'exclude': pe} if pe else {}))
        elif form == 1:
            got = n in call_entry(mode, case['entry'], [n], case['list'], flc | mod.NEGATE)
        else:
            got = n in call_entry(mode, case['entry'], [n], case['list'], flc | mod.NEGATE | mod.MINUSNEGATE)
        return bool(got) == bool(want), {'impl': bool(got), 'want': bool(want)}
    if kind == 'split':
        fl = base_flags(mode, case.get('ext', True), case['dot'], [])
        want = any(match(n, p, fl) for p in case['pieces'])
        got = n in call_entry(mode, case['entry'], [n], case['joined'] if case.get('which') != 'list-with-SPLIT' else case['pieces'],
                              fl | mod.SPLIT)
        return bool(got) == bool(want), {'impl': bool(got), 'want': bool(want)}
    if kind == 'brace':
        fl = base_flags(mode, True, case['dot'], [mod.SPLIT] if case['split'] else [])
        if 'problem' in case:
            return True, {'note': 'translate comparison needs the full expansion list; re-run the shard'}
        got = n in call_entry(mode, case['entry'], [n], case['template'], fl | mod.BRACE)
        return bool(got) == bool(case['want']), {'impl': bool(got), 'want': case['want']}
    return True, {'note': 'unknown kind'}
