"""C12 - glob results are well-formed and independent of how the root is given."""
import os
import pathlib

from ..runner import Outcome, HarnessError
from .. import ast as A, ref as R, trees as T, walker as W, fscommon as FC, findings as K, util
from ..util import G

PROPERTY = 'C12'
RULE = ('case = (tree, 1-2 path patterns (relative, absolute below the temporary root, with `.`/`..`, trailing and duplicate '
        'separators), configuration over MARK, NODIR, GLOBSTAR, DOTGLOB, SCANDOTDIR, MATCHBASE, BRACE, SPLIT, NEGATE); per element '
        'of glob(): it exists (lexists) relative to the root, is spelled relative for relative patterns and absolute for absolute '
        'ones, ends with a separator only if it is a directory and always when the pattern ended with a separator or MARK is set '
        'and it is a directory, and is never a directory under NODIR; across calls: list(iglob()) == glob(), and the same result '
        'set for root_dir as str / bytes / PathLike, dir_fd and cwd; non-trivial = the result has both a directory and a '
        'non-directory, or a symlink; evaluations = result elements judged + root forms compared')
ASSUMPTIONS = ['os.lstat / os.path.isdir on the generated tree are the ground truth']

CFG_KEYS = ['mark', 'nodir', 'globstar', 'dot', 'scandotdir', 'matchbase', 'brace', 'split', 'negate']


class _FsPath:
    """A path-like object that is nothing but path-like (its str() is not its path)."""

    def __init__(self, p):
        self._p = p

    def __fspath__(self):
        return self._p


def shards(tier, seed, scale=1.0):
    n = 400 if tier == 'quick' else 6000
    out = [{'name': 'wf-%d' % s, 'kind': 'wf', 'seed': seed * 1000 + s, 'n': max(10, int(n * scale))} for s in range(16)]
    for ti in range(len(T.CATALOGUE)):
        out.append({'name': 'literal-%d' % ti, 'kind': 'literal', 'tree': ti})
    out.append({'name': 'dirfd0', 'kind': 'dirfd0'})
    return out


def run_shard(desc):
    if desc['kind'] == 'literal':
        return run_literal(desc)
    if desc['kind'] == 'dirfd0':
        return run_dirfd0(desc)
    return run_wf(desc)


DIRFD0_SPEC = [('f', 'a.txt'), ('d', 'sub'), ('f', 'sub/b.txt'), ('f', 'only_here'), ('l', 'lnk', 'sub')]
DIRFD0_CALLS = [('only_here', 0), ('*', 0), ('sub/*', 0), ('sub/b.txt', 0), ('a.txt', G.MARK), ('**', G.GLOBSTAR), ('sub', G.MARK), ('sub/', 0), ('nosuch', 0),
                ('lnk', G.MARK), ('lnk/*', 0), ('o*', G.NODIR)]


def run_dirfd0(desc):
    """The root directory open on descriptor 0 (a number like any other), the working directory somewhere else."""
    out = Outcome()
    out.exhaustive = True
    with FC.built_tree(DIRFD0_SPEC) as (root, _r), util.temp_root() as other:
        open(os.path.join(other, 'stranger'), 'w').close()
        try:
            saved = os.dup(0)
        except OSError:
            saved = None
        fd = os.open(root, os.O_RDONLY)
        results = []
        try:
            os.dup2(fd, 0)
            with util.chdir(other):
                for pat, fl in DIRFD0_CALLS:
                    try:
                        a = sorted(G.glob(pat, flags=fl, root_dir=root))
                        b = sorted(G.glob(pat, flags=fl, dir_fd=0))
                        bb = sorted(os.fsdecode(x) for x in G.glob(os.fsencode(pat), flags=fl, dir_fd=0))
                    except Exception as e:
                        a, b, bb = ['<a>'], ['<%s>' % type(e).__name__], []
                    results.append((pat, fl, a, b, bb))
        finally:
            if saved is not None:
                os.dup2(saved, 0)
                os.close(saved)
            else:
                os.close(0)
            os.close(fd)
    for pat, fl, a, b, bb in results:
        out.evaluations += 2
        if a != b or a != bb:
            out.violation({'kind': 'dirfd0', 'pattern': pat, 'flags': fl, 'root_dir': a, 'dir_fd_0': b, 'dir_fd_0_bytes': bb,
                           'problem': 'result set depends on how the root is given: descriptor 0'}, bucket=('dirfd0', pat))
        elif a:
            out.nontrivial(('dirfd0', pat, fl))
    out.sample({'stream': 'dirfd0', 'calls': len(results)})
    return out


def run_literal(desc):
    """Every entry path of a catalogue tree (files, directories, symlinks incl. dangling ones) as a literal pattern, plus
    star / globstar variants, through all five ways of giving the root."""
    out = Outcome()
    out.exhaustive = True
    spec = T.CATALOGUE[desc['tree']]
    with FC.built_tree(spec) as (root, _r):
        model = T.Model(root)
        entries = [p for p, _d, _l in model.all_entries(follow=False, max_depth=6)]
        n = 0
        for segs in FC.literal_variants(entries):
            for cfg in ({}, {'mark': True}, {'globstar': True, 'dot': True}, {'nodir': True}, {'icase': True}):
                if any(isinstance(x, str) for x in segs) and not cfg.get('globstar'):
                    continue
                for trail in (False, True) if len(segs) <= 2 else (False,):
                    pp = A.PathPat(False, segs, trail, 1)
                    n += 1
                    res = check_case(root, spec, [pp], bool(n % 5 == 0), dict(cfg), out, desc['armed'])
                    if res:
                        out.nontrivial((desc['tree'], A.render_path(pp), tuple(sorted(cfg))))
    out.sample({'stream': 'literal', 'tree_index': desc['tree'], 'entries': len(entries), 'cases': n})
    return out


def check_case(root, spec, pps, absolute, cfg, out, armed):
    # the same directory spelled through a symlink elsewhere followed by `..`: <parent>/alias -> <root>/<sub>, so
    # <parent>/alias/.. is <root> for the OS although not textually.  The link exists for the whole case.
    alias = None
    if not absolute:
        sub = next((e[1] for e in spec if e[0] == 'd' and '/' not in e[1] and not e[1].startswith('.')), None)
        if sub is not None and os.path.isdir(os.path.join(root, sub)) and not os.path.islink(os.path.join(root, sub)):
            alias = os.path.join(os.path.dirname(root), 'alias')
            if os.path.lexists(alias):
                alias = None
            else:
                os.symlink(os.path.join(root, sub), alias)
    try:
        return _check_case(root, spec, pps, absolute, cfg, out, armed, alias)
    finally:
        if alias is not None:
            os.unlink(alias)


def _check_case(root, spec, pps, absolute, cfg, out, armed, alias):
    texts = [A.render_path(pp) for pp in pps]
    mixed = absolute == 'mixed'
    if mixed:
        texts = [root + '/' + texts[0]] + texts[1:]     # an absolute pattern followed by relative ones in one list
    elif absolute:
        texts = [root + '/' + t for t in texts]
    fl = FC.cfg_flags(cfg)
    pats = texts
    if mixed:
        pass
    elif cfg.get('split') and len(texts) > 1:
        pats = '|'.join(texts)
    elif cfg.get('brace') and len(texts) > 1 and not any(',' in t or '{' in t or '}' in t for t in texts):
        pats = '{' + ','.join(texts) + '}'
    case = {'tree': [list(e) for e in spec], 'asts': [A.to_json(pp) for pp in pps], 'absolute': absolute, 'patterns': pats, 'cfg': cfg}
    fd = None
    spelled = []
    if not absolute:
        spelled = [('trailing separator', root + '/'), ('trailing /.', root + '/.')]
        if alias is not None:
            spelled.append(('symlink/..', alias + '/..'))
    sres = []
    # in a third of the cases an exclusion that excludes nothing is supplied through exclude= (every other clause stays as it is)
    xk, bxk = {}, {}
    if len(str(pats)) % 3 == 0:
        xk, bxk = {'exclude': 'zz_nothing*'}, {'exclude': b'zz_nothing*'}
        case['exclude'] = 'zz_nothing*'
    try:
        with util.watchdog(15), util.ScandirCounter(8000):
            res = G.glob(pats, flags=fl, root_dir=root, **xk)
            for label, sp in spelled:
                sres.append(('root_dir spelled with ' + label, G.glob(pats, flags=fl, root_dir=sp, **xk)))
            ires = list(G.iglob(pats, flags=fl, root_dir=root, **xk))
            bres = [os.fsdecode(x) for x in G.glob(os.fsencode(pats) if isinstance(pats, str) else [os.fsencode(p) for p in pats], flags=fl,
                                                  root_dir=os.fsencode(root), **bxk)]
            pres = G.glob(pats, flags=fl, root_dir=pathlib.Path(root), **xk)
            fd = os.open(root, os.O_RDONLY)
            fres = G.glob(pats, flags=fl, dir_fd=fd, **xk)
            try:
                bfres = [os.fsdecode(x) for x in G.glob(os.fsencode(pats) if isinstance(pats, str) else [os.fsencode(p) for p in pats], flags=fl,
                                                       dir_fd=fd, **bxk)]
            except util.HarnessBudget:
                raise
            except Exception as e:
                bfres = ['<%s>' % type(e).__name__]
            with util.chdir(root):
                cres = G.glob(pats, flags=fl, **xk)
            # path-like roots that are not pathlib paths: an object that only has __fspath__ (str and bytes), and an os.DirEntry
            def safe(fn):
                try:
                    return fn()
                except util.HarnessBudget:
                    raise
                except Exception as e:          # an exception for one way of giving the root is a difference like any other
                    return ['<%s>' % type(e).__name__]
            plres = safe(lambda: G.glob(pats, flags=fl, root_dir=_FsPath(root), **xk))
            bplres = safe(lambda: [os.fsdecode(x) for x in G.glob(os.fsencode(pats) if isinstance(pats, str) else [os.fsencode(p) for p in pats], flags=fl,
                                                                  root_dir=_FsPath(os.fsencode(root)), **bxk)])
            with os.scandir(os.path.dirname(root)) as it_:
                entry_ = next(e_ for e_ in it_ if e_.name == os.path.basename(root))
            deres = safe(lambda: G.glob(pats, flags=fl, root_dir=entry_, **xk))
            # a descriptor of the parent directory plus a relative root_dir: the root is <fd>/<root_dir>
            pfd = os.open(os.path.dirname(root), os.O_RDONLY)
            try:
                pres2 = G.glob(pats, flags=fl, dir_fd=pfd, root_dir=os.path.basename(root), **xk)
            finally:
                os.close(pfd)
    except util.HarnessBudget:
        out.stats['budget_skipped'] += 1
        return None
    finally:
        if fd is not None:
            os.close(fd)
    if ires != res:
        out.violation(dict(case, problem='iglob differs from glob', glob=res[:8], iglob=ires[:8]), bucket=('iglob',))
        return res
    base = set(res)
    for label, other in [('bytes root', bres), ('PathLike root', pres), ('dir_fd', fres), ('bytes patterns with dir_fd', bfres), ('cwd', cres),
                         ('dir_fd of the parent with a relative root_dir', pres2), ('object with __fspath__ -> str', plres),
                         ('object with __fspath__ -> bytes', bplres), ('os.DirEntry', deres)] + sres:
        out.evaluations += 1
        if set(other) != base:
            out.violation(dict(case, problem='result set depends on how the root is given: ' + label, root_dir=sorted(base)[:8],
                               other=sorted(other)[:8]), size=len(str(pats)) * 10, bucket=('root', label))
            return res
    pat_trail = [pp.trail for pp in pps]
    for e in res:
        out.evaluations += 1
        full = e if os.path.isabs(e) else os.path.join(root, e)
        problem = None
        if not os.path.lexists(full):
            problem = 'result does not exist'
        elif not mixed and bool(absolute) != os.path.isabs(e):
            problem = 'absolute/relative spelling does not follow the pattern'
        elif e.endswith('/') and not os.path.isdir(full):
            problem = 'trailing separator on a non-directory'
        elif os.path.isdir(full) and not e.endswith('/') and (cfg.get('mark') or all(pat_trail)):
            problem = 'directory without trailing separator although MARK is set or the pattern ended with a separator'
        elif cfg.get('nodir') and os.path.isdir(full):
            problem = 'directory returned under NODIR'
        if problem:
            ids = set()
            kw = FC.ref_kwargs(cfg)
            for pp in pps:
                rel = e[len(root) + 1:] if absolute and e.startswith(root + '/') else e
                if mixed:
                    continue
                ids |= K.path_classes(pp, W.strip_sep(rel) or '.', kw, True, R.MUSTNOT, A.render_path(pp))
            hit = sorted(ids & set(armed)) if problem == 'result does not exist' else []
            c = dict(case, problem=problem, name=e, result=res[:10])
            if hit:
                out.known_hit(hit[0], c)
            else:
                out.violation(c, size=len(str(pats)) * 10 + len(e), bucket=('wf', problem))
            return res
    return res


def run_wf(desc):
    from hypothesis import given, strategies as st, seed
    out = Outcome()
    armed = desc['armed']

    @seed(desc['seed'])
    @util.hyp_settings(desc['n'], shrink=False)
    @given(FC.st_case(max_segs=3, globstarlong=False), st.data(), FC.st_cfg(CFG_KEYS), st.booleans())
    def test(sp, data, cfg, absolute):
        spec, pp = sp
        names = sorted({os.path.basename(e[1]) for e in spec} | {'.', '..'})
        pps = [pp]
        if data.draw(st.integers(0, 2)) == 0:
            pps.append(data.draw(FC.st_pathpat(3, globstarlong=False, names=names)))
        if absolute and len(pps) == 2 and data.draw(st.booleans()):
            absolute = 'mixed'
        if absolute and cfg.get('matchbase'):
            cfg = {k: v for k, v in cfg.items() if k != 'matchbase'}
        if cfg.get('negate'):
            # an exclusion that cannot look like an inclusion marker by accident
            cfg = dict(cfg)
        with FC.built_tree(spec) as (root, _removed):
            out.stats['cases'] += 1
            out.stats['absolute'] += bool(absolute)
            out.stats['mixed_absolute_relative'] += absolute == 'mixed'
            res = check_case(root, spec, pps, absolute, cfg, out, armed)
            if res is None:
                return
            kinds = set()
            for e in res:
                full = e if os.path.isabs(e) else os.path.join(root, e)
                kinds.add('l' if os.path.islink(full.rstrip('/')) else 'd' if os.path.isdir(full) else 'f')
            if 'l' in kinds or ('d' in kinds and 'f' in kinds):
                out.nontrivial((tuple(map(tuple, spec)), tuple(A.render_path(p_) for p_ in pps), str(absolute), tuple(sorted(cfg))))
            if out.stats['cases'] % 47 == 1:
                out.sample({'tree': [e[1] + ('->' + e[2] if e[0] == 'l' else '/' if e[0] == 'd' else '') for e in spec],
                            'patterns': [A.render_path(p_) for p_ in pps], 'absolute': absolute, 'cfg': cfg,
                            'result': [r if not r.startswith(root) else r[len(root):] for r in res[:8]]})
    test()
    return out


def replay(case):
    if case.get('kind') == 'dirfd0':
        o = run_dirfd0({})
        return (not o.violations), [v[2] for v in o.violations][:3]
    util.clear_caches()
    spec = [tuple(e) for e in case['tree']]
    pps = [A.from_json(a) for a in case['asts']] if 'asts' in case else [A.from_json(case['ast'])]
    o = Outcome()
    with FC.built_tree(spec) as (root, _r):
        check_case(root, spec, pps, case.get('absolute', False), case['cfg'], o, [])
    return (not o.violations), [dict(problem=v[2].get('problem'), name=v[2].get('name')) for v in o.violations]
