"""C14 - WcMatch returns exactly the files a filtered directory walk selects."""
import os
import itertools
import collections

from ..runner import Outcome, HarnessError
from .. import ast as A, ref as R, trees as T, fscommon as FC, util
from ..util import F, G, WM

PROPERTY = 'C14'
FLAG_NAMES = ['RECURSIVE', 'HIDDEN', 'SYMLINKS', 'FILEPATHNAME', 'DIRPATHNAME', 'MATCHBASE', 'GLOBSTAR', 'EXTMATCH', 'BRACE', 'MINUSNEGATE',
              'IGNORECASE', 'CASE']
RULE = ('case = (tree with hidden files/directories, symlinked files/directories, dangling links, nested same-named folders; file '
        'pattern and folder-exclude pattern built from name/path pattern ASTs joined by `|` with `!`/`-` negations incl. "negation '
        'only" and empty; subset of the 12 flags %s); all 4096 subsets are enumerated on catalogue trees with fixed pattern pairs, '
        'Hypothesis samples the rest; oracle: an independent os.scandir walk (top-down, directories pruned by the exclude predicate, '
        'symlinked directories entered only with SYMLINKS, hidden entries skipped without HIDDEN) whose per-file / per-directory '
        'predicates are fnmatch.fnmatch / glob.globmatch calls with the documented flag translation; results compared as multisets, '
        'get_skipped() == files visited - files returned; non-trivial = the tree has a hidden or symlinked directory and the result '
        'is neither empty nor all files') % ' '.join(FLAG_NAMES)
ASSUMPTIONS = ['the single-name / single-path matchers fnmatch() and globmatch() are trusted here (judged by C01-C03, C07)',
               'patterns with a leading separator are only used in the anchoring clause (every piece anchored == the unanchored text without MATCHBASE)']


def ref_walk(root, fpat, epat, flags):
    rec = bool(flags & WM.RECURSIVE)
    hid = bool(flags & WM.HIDDEN)
    sym = bool(flags & WM.SYMLINKS)
    fp = bool(flags & WM.FILEPATHNAME)
    dp = bool(flags & WM.DIRPATHNAME)
    mb = bool(flags & WM.MATCHBASE)
    common = flags & (WM.CASE | WM.IGNORECASE | WM.RAWCHARS | WM.EXTMATCH | WM.BRACE | WM.MINUSNEGATE)
    base = common | F.NEGATE | F.DOTMATCH | F.NEGATEALL | F.SPLIT
    gextra = (G.GLOBSTAR if flags & WM.GLOBSTAR else 0) | (G.MATCHBASE if mb else 0)

    single = common | F.DOTMATCH          # one piece at a time: no list machinery involved (pieces are judged by C01-C03)
    minus = bool(flags & WM.MINUSNEGATE)

    def decomposed(text, one):
        """`a|b|!c` = (a or b) and not c, an exclusion-only text = not any exclusion - evaluated piece by piece when the text is
        simple enough to be split by hand (no groups, brackets, braces or escapes); None otherwise."""
        if any(ch in text for ch in '([{\\') or (flags & WM.RAWCHARS):
            return None
        pieces = text.split('|')
        marker = '-' if minus else '!'
        if any(p_ in ('', marker) for p_ in pieces):
            return None
        pos = [p_ for p_ in pieces if not p_.startswith(marker)]
        neg = [p_[1:] for p_ in pieces if p_.startswith(marker)]
        return (any(one(p_) for p_ in pos) if pos else True) and not any(one(n_) for n_ in neg)

    def fmatch(name, rel):
        if not fpat:
            return True
        if fp:
            d_ = decomposed(fpat, lambda p_: G.globmatch(rel, p_, flags=single | gextra))
            return G.globmatch(rel, fpat, flags=base | gextra) if d_ is None else d_
        d_ = decomposed(fpat, lambda p_: F.fnmatch(name, p_, flags=single))
        return F.fnmatch(name, fpat, flags=base) if d_ is None else d_

    def dexcl(name, rel):
        if not epat:
            return False
        if dp:
            d_ = decomposed(epat, lambda p_: G.globmatch(rel + '/', p_, flags=single | gextra))
            return G.globmatch(rel + '/', epat, flags=base | gextra) if d_ is None else d_
        d_ = decomposed(epat, lambda p_: F.fnmatch(name, p_, flags=single))
        return F.fnmatch(name, epat, flags=base) if d_ is None else d_
    out = []
    visited = [0]

    def walk(d, rel, depth):
        if depth > 12:
            raise util.HarnessBudget('reference walk too deep')
        with os.scandir(d) as it:
            ents = sorted(it, key=lambda e: e.name)
        dirs, files = [], []
        for e in ents:
            (dirs if e.is_dir() else files).append(e)
        for e in files:
            visited[0] += 1
            r = (rel + '/' + e.name) if rel else e.name
            ok = fmatch(e.name, r)
            if ok and not hid and e.name.startswith('.'):
                ok = False
            if ok:
                out.append(r)
        for e in dirs:
            r = (rel + '/' + e.name) if rel else e.name
            if not rec:
                continue
            if dexcl(e.name, r):
                continue
            if not hid and e.name.startswith('.'):
                continue
            if e.is_symlink() and not sym:
                continue
            walk(e.path, r, depth + 1)
    walk(root, '', 0)
    return out, visited[0]


def flagval(names):
    return util.flags_of(names, util.WM_FLAGS)


def check_case(root, spec, fpat, epat, names, out, case_extra=None):
    fl = flagval(names)
    case = {'tree': [list(e) for e in spec], 'file_pattern': fpat, 'exclude_pattern': epat, 'flags': list(names)}
    if case_extra:
        case.update(case_extra)
    try:
        with util.watchdog(15), util.ScandirCounter(6000):
            try:
                w = WM.WcMatch(root, fpat, epat, flags=fl)
                got = [os.path.relpath(p, root) for p in w.match()]
                sk = w.get_skipped()
                gexc = None
            except util.HarnessBudget:
                raise
            except Exception as e:
                got, sk, gexc = None, None, type(e).__name__
            try:
                want, visited = ref_walk(root, fpat, epat, fl)
                wexc = None
            except util.HarnessBudget:
                raise
            except Exception as e:
                want, visited, wexc = None, None, type(e).__name__
    except util.HarnessBudget:
        out.stats['budget_skipped'] += 1
        return None
    out.evaluations += 1
    if gexc or wexc:
        if gexc != wexc:
            out.violation(dict(case, problem='exception differs', impl=gexc, reference=wexc), bucket=('exc', gexc, wexc))
        return None
    if collections.Counter(got) != collections.Counter(want):
        diff = sorted((collections.Counter(got) - collections.Counter(want)) + (collections.Counter(want) - collections.Counter(got)))
        out.violation(dict(case, problem='result differs from the filtered walk', name=diff[0], in_result=diff[0] in got, got=sorted(got)[:12],
                           want=sorted(want)[:12]), size=len(fpat) * 10 + len(epat) * 10 + len(names), bucket=('result', diff[0] in got))
        return None
    if sk != visited - len(got):
        out.violation(dict(case, problem='get_skipped() is not visited - returned', skipped=sk, visited=visited, returned=len(got)),
                      bucket=('skipped',))
        return None
    # the same object asked again (match() after match(), then after a partly consumed imatch()): the same files, and the skipped count is
    # that of the last run, not a running total
    try:
        with util.watchdog(15), util.ScandirCounter(6000):
            again = [os.path.relpath(p_, root) for p_ in w.match()]
            sk_again = w.get_skipped()
            it_ = w.imatch()
            next(it_, None)
            third = [os.path.relpath(p_, root) for p_ in w.match()]
            sk_third = w.get_skipped()
        out.evaluations += 2
        if collections.Counter(again) != collections.Counter(got) or sk_again != sk or collections.Counter(third) != collections.Counter(got) or sk_third != sk:
            out.violation(dict(case, problem='a second run of the same WcMatch object gives another result or another skipped count',
                               skipped=[sk, sk_again, sk_third], returned=[len(got), len(again), len(third)]), bucket=('rerun',))
            return None
    except util.HarnessBudget:
        out.stats['budget_skipped'] += 1
    # anchoring: under FILEPATHNAME / DIRPATHNAME a piece written with a leading separator is "a normal path pattern that is anchored to the
    # base path" (docs, MATCHBASE section): with every piece anchored the result is the one of the unanchored text without MATCHBASE
    fp_on, dp_on = 'FILEPATHNAME' in names and bool(fpat), 'DIRPATHNAME' in names and bool(epat)
    if fp_on or dp_on:
        marker = '-' if 'MINUSNEGATE' in names else '!'

        def anchored(text):
            if any(ch in text for ch in '([{\\'):
                return None
            res = []
            for piece in text.split('|'):
                neg = piece.startswith(marker)
                body = piece[1:] if neg else piece
                if not body or body.startswith('/'):
                    return None
                res.append((marker if neg else '') + '/' + body)
            return '|'.join(res)
        f2 = anchored(fpat) if fp_on else fpat
        e2 = anchored(epat) if dp_on else epat
        if f2 is not None and e2 is not None:
            try:
                with util.watchdog(15), util.ScandirCounter(6000):
                    if 'MATCHBASE' in names:
                        w0 = WM.WcMatch(root, fpat, epat, flags=fl & ~WM.MATCHBASE)
                        base0, sk0 = [os.path.relpath(p_, root) for p_ in w0.match()], w0.get_skipped()
                    else:
                        base0, sk0 = got, sk
                    try:
                        w1 = WM.WcMatch(root, f2, e2, flags=fl)
                        got1, sk1 = [os.path.relpath(p_, root) for p_ in w1.match()], w1.get_skipped()
                    except util.HarnessBudget:
                        raise
                    except Exception as e:
                        got1, sk1 = ['<%s>' % type(e).__name__], None
                out.evaluations += 1
                out.stats['anchored_cases'] += 1
                if collections.Counter(got1) != collections.Counter(base0) or sk1 != sk0:
                    out.violation(dict(case, problem='pieces anchored with a leading separator do not give the result of the unanchored text without MATCHBASE',
                                       anchored=[f2, e2], got=sorted(got1)[:12], want=sorted(base0)[:12], skipped=[sk1, sk0]),
                                  size=len(fpat) * 10 + len(epat) * 10 + len(names), bucket=('anchor', 'MATCHBASE' in names))
                    return None
            except util.HarnessBudget:
                out.stats['budget_skipped'] += 1
    # the same walk with a bytes root and bytes patterns (an empty pattern given as b'' and as None)
    try:
        with util.watchdog(15), util.ScandirCounter(6000):
            for label, bf, be in (('bytes', os.fsencode(fpat), os.fsencode(epat)), ('bytes, empty patterns as None', os.fsencode(fpat) or None, os.fsencode(epat) or None)):
                try:
                    wb = WM.WcMatch(os.fsencode(root), bf, be, flags=fl)
                    gotb = [os.path.relpath(os.fsdecode(p_), root) for p_ in wb.match()]
                    skb = wb.get_skipped()
                except util.HarnessBudget:
                    raise
                except Exception as e:
                    gotb, skb = ['<%s>' % type(e).__name__], None
                out.evaluations += 1
                if collections.Counter(gotb) != collections.Counter(got) or skb != sk:
                    out.violation(dict(case, problem='a bytes root (' + label + ') gives another result than the str root', got=sorted(gotb)[:12],
                                       want=sorted(got)[:12], skipped=[skb, sk]), size=len(fpat) * 10 + len(epat) * 10 + len(names), bucket=('bytes-root', label))
                    return None
    except util.HarnessBudget:
        out.stats['budget_skipped'] += 1
    except UnicodeEncodeError:
        pass
    # the same root spelled with a trailing separator, with `/.`, and as `.` from inside it
    try:
        with util.watchdog(15), util.ScandirCounter(6000):
            for label, sp in (('trailing separator', root + '/'), ('trailing /.', root + '/.'), ('cwd', '.')):
                ctx = util.chdir(root) if label == 'cwd' else util.chdir(os.getcwd())
                with ctx:
                    w2 = WM.WcMatch(sp, fpat, epat, flags=fl)
                    got2 = [os.path.relpath(p, sp) for p in w2.match()]
                    sk2 = w2.get_skipped()
                out.evaluations += 1
                if collections.Counter(got2) != collections.Counter(got) or sk2 != sk:
                    out.violation(dict(case, problem='result depends on how the root directory is spelled: ' + label, got=sorted(got2)[:12],
                                       want=sorted(got)[:12], skipped=[sk2, sk]), size=len(fpat) * 10 + len(epat) * 10 + len(names),
                                  bucket=('root-spelling', label))
                    return None
    except util.HarnessBudget:
        out.stats['budget_skipped'] += 1
    return got, visited


FIXED_PAIRS = [('*.txt', ''), ('*.txt|*.py', 'e'), ('!*.txt', ''), ('-*.txt', ''), ('', 'd'), ('*.txt', 'd|.hd'), ('**/*.txt', 'd/e'),
               ('d/*.txt', '!d'), ('@(a|b).*', '**/e'), ('*.{txt,py}', 'd/*'), ('*.TXT', 'D'), ('a.txt', '*/e'), ('*', '!(d)'), ('a*|!a.txt', 'e|!e'),
               ('.*|*', '.*'), ('*', '*/')]
FIXED_TREE = [('f', 'a.txt'), ('f', 'b.py'), ('f', '.h.txt'), ('d', 'd'), ('f', 'd/a.txt'), ('f', 'd/.h'), ('d', 'd/e'), ('f', 'd/e/b.txt'),
              ('d', '.hd'), ('f', '.hd/a.txt'), ('l', 'lf.txt', 'a.txt'), ('l', 'ld', 'd'), ('l', 'dang.txt', 'nowhere'), ('d', 'd/d'),
              ('f', 'd/d/c.TXT'), ('d', 'A'), ('f', 'A/B.txt')]


def shards(tier, seed, scale=1.0):
    out = []
    S = 16
    for s in range(S):
        out.append({'name': 'subsets-%d' % s, 'kind': 'subsets', 'shard': s, 'of': S, 'pairs': 4 if tier == 'quick' else len(FIXED_PAIRS)})
    n = 250 if tier == 'quick' else 4000
    for s in range(16):
        out.append({'name': 'hyp-%d' % s, 'kind': 'hyp', 'seed': seed * 1000 + s, 'n': max(10, int(n * scale))})
    return out


def run_shard(desc):
    if desc['kind'] == 'subsets':
        return run_subsets(desc)
    return run_hyp(desc)


def run_subsets(desc):
    """All 4096 flag subsets on the fixed tree with a rotating selection of the fixed pattern pairs."""
    out = Outcome()
    out.exhaustive = True
    s, S = desc['shard'], desc['of']
    if s == 0:
        # empty / catch-all patterns on the trees whose names hold a newline or end in a backslash
        for ti in (14, 15):
            with FC.built_tree(T.CATALOGUE[ti]) as (root2, _r2):
                for fpat, epat in (('', ''), ('*', ''), ('', 'zz'), ('!zz', ''), ('*|!zz', '')):
                    for names in ([], ['RECURSIVE'], ['RECURSIVE', 'HIDDEN'], ['RECURSIVE', 'FILEPATHNAME', 'HIDDEN'], ['RECURSIVE', 'HIDDEN', 'SYMLINKS']):
                        r = check_case(root2, T.CATALOGUE[ti], fpat, epat, names, out, {'stream': 'odd-names'})
                        if r is not None and r[0]:
                            out.nontrivial(('odd-names', ti, fpat, epat, tuple(names)))
    with FC.built_tree(FIXED_TREE) as (root, _r):
        idx = 0
        for i in range(4096):
            names = [n for j, n in enumerate(FLAG_NAMES) if i >> j & 1]
            for k in range(desc['pairs']):
                idx += 1
                if idx % S != s:
                    continue
                fpat, epat = FIXED_PAIRS[(i + k * 5) % len(FIXED_PAIRS)]
                r = check_case(root, FIXED_TREE, fpat, epat, names, out, {'stream': 'subsets'})
                if r is None:
                    continue
                got, visited = r
                if 0 < len(got) < visited:
                    out.nontrivial(('subsets', fpat, epat, i))
                if idx % 3001 == s:
                    out.sample({'file_pattern': fpat, 'exclude_pattern': epat, 'flags': names, 'returned': len(got), 'visited': visited,
                                'stream': 'subsets'})
    return out


def run_hyp(desc):
    from hypothesis import given, strategies as st, seed
    out = Outcome()
    # (catalogue trees 14 and 15 have names with a newline / a trailing backslash: ordinary characters for a file name)
    trees = st.one_of(st.sampled_from([T.CATALOGUE[1], T.CATALOGUE[2], T.CATALOGUE[6], T.CATALOGUE[9], T.CATALOGUE[4], FIXED_TREE, T.CATALOGUE[14],
                                       T.CATALOGUE[15]]), T.st_tree(False))

    def pieces(spec):
        names = sorted({os.path.basename(e[1]) for e in spec} | {'zz'})
        seg = FC.st_segment(only_names=names)
        name_piece = seg.map(lambda s: A.render(s))
        path_piece = st.lists(st.one_of(seg, seg, st.just(A.GS)), min_size=1, max_size=3).map(
            lambda l: A.render_path(A.PathPat(False, tuple(x for x in l if x) or ((A.STAR,),), False, 1)))
        piece = st.one_of(name_piece, name_piece, path_piece)
        neg = st.sampled_from(['', '', '', '!', '-'])
        item = st.tuples(neg, piece).map(lambda t: t[0] + t[1])
        pat = st.one_of(st.just(''), st.lists(item, min_size=1, max_size=3).map('|'.join))
        return st.tuples(st.just(spec), pat, pat)

    @seed(desc['seed'])
    @util.hyp_settings(desc['n'], shrink=False)
    @given(trees.flatmap(pieces), st.lists(st.sampled_from(FLAG_NAMES), unique=True, max_size=8).map(sorted))
    def test(t, names):
        spec, fpat, epat = t
        if fpat.startswith('/') or epat.startswith('/'):
            return
        follow_safe = 'SYMLINKS' in names
        with FC.built_tree(spec, follow_safe=follow_safe) as (root, _removed):
            out.stats['cases'] += 1
            r = check_case(root, spec, fpat, epat, names, out, {'stream': 'hyp'})
            if r is None:
                return
            got, visited = r
            special = any(e[0] == 'l' or os.path.basename(e[1]).startswith('.') for e in spec)
            if special and 0 < len(got) < visited:
                out.nontrivial((tuple(map(tuple, spec)), fpat, epat, tuple(names)))
            out.stats['negation_only'] += bool(fpat) and all(p[:1] in '!-' for p in fpat.split('|'))
            if out.stats['cases'] % 43 == 1:
                out.sample({'tree': [e[1] + ('->' + e[2] if e[0] == 'l' else '/' if e[0] == 'd' else '') for e in spec], 'file_pattern': fpat,
                            'exclude_pattern': epat, 'flags': names, 'returned': len(got), 'visited': visited, 'stream': 'hyp'})
    test()
    return out


def replay(case):
    util.clear_caches()
    spec = [tuple(e) for e in case['tree']]
    o = Outcome()
    with FC.built_tree(spec, follow_safe='SYMLINKS' in case['flags']) as (root, _r):
        check_case(root, spec, case['file_pattern'], case['exclude_pattern'], case['flags'], o)
    return (not o.violations), [dict(problem=v[2].get('problem'), name=v[2].get('name')) for v in o.violations]
