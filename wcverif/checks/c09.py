"""C09 - escape makes any string literal; non-magic patterns are literal."""
import itertools

from ..runner import Outcome, HarnessError
from .. import names as N, util
from ..util import F, G

PROPERTY = 'C09'
ALPHA = ['a', 'B', '.', '/', '\\', '*', '?', '[', ']', '(', ')', '|', '!', '-', '~', '{', '}', '\n', '@', ',', '\xe9']
RULE = ('case = (string s, flag subset, mode fnmatch|glob, platform mode); strings: every string up to length 3 over the alphabet '
        '%r, Hypothesis strings up to length 24, Windows drive/UNC shapes for glob.escape(unix=False); flags: all 4096 subsets of '
        '{EXTMATCH, BRACE, SPLIT, NEGATE, MINUSNEGATE, NEGATEALL, GLOBTILDE, GLOBSTAR, DOTMATCH, NODOTDIR, RAWCHARS, IGNORECASE} for '
        'the shortest strings and random subsets otherwise, each under FORCEUNIX and FORCEWIN; oracle: escape(s) matches s, and '
        'rejects every string at edit distance 1 (deletions, insertions and substitutions from a probe alphabet) and every s+t, '
        't+s unless it is equal to s under the mode\'s case folding / separator equivalence / duplicate-or-trailing separators '
        '(computed by an independent normaliser); conversely a pattern p with is_magic(p, flags) False matches exactly p; '
        'non-trivial = s contains a metacharacter or a drive/UNC prefix; evaluations = match calls compared') % (''.join(ALPHA),)
ASSUMPTIONS = ['"matches nothing else" is tested on the edit-distance-1 neighbourhood plus prefix/suffix extensions, not proved',
               'paths that consist only of separators are not judged in glob mode']

FLAG_NAMES = ['EXTMATCH', 'BRACE', 'SPLIT', 'NEGATE', 'MINUSNEGATE', 'NEGATEALL', 'GLOBTILDE', 'GLOBSTAR', 'DOTMATCH', 'NODOTDIR',
              'RAWCHARS', 'IGNORECASE']
META = set('*?[]()|!-~{}\\')
PROBES = ['a', 'B', '.', '/', '\\', '\n', '*', 'x', '!']


def flagval(names, mode, win):
    table = util.FN_FLAGS if mode == 'fn' else util.GL_FLAGS
    fl = 0
    for n in names:
        if n in table:
            fl |= table[n]
    fl |= (F.FORCEWIN if win else F.FORCEUNIX)
    return fl


def norm(s, mode, win, icase):
    """Equivalence class representative of a name under the selected mode."""
    if win:
        s = s.replace('\\', '/')
    if icase:
        s = ''.join(c.lower() if c < '\x80' else c for c in s)
    if mode == 'gl':
        out = []
        for c in s:
            if c == '/' and out and out[-1] == '/':
                continue
            out.append(c)
        s = ''.join(out)
    return s


def equivalent(cand, s, mode, win, icase):
    a, b = norm(cand, mode, win, icase), norm(s, mode, win, icase)
    if a == b:
        return True
    if mode == 'gl' and not b.endswith('/') and a.rstrip('/') == b and a.rstrip('/'):
        return True      # trailing separators on the path are tolerated
    if icase:
        # non-ASCII case pairs are not judged
        if ''.join(c.lower() for c in a) == ''.join(c.lower() for c in b):
            return None
        if mode == 'gl' and not b.endswith('/') and ''.join(c.lower() for c in a).rstrip('/') == ''.join(c.lower() for c in b):
            return None
    return False


def only_seps(s, win):
    return all(c == '/' or (win and c == '\\') for c in s)


def check_string(s, names, mode, win, out, stream, converse=False):
    """One (string, flag set): escape(s) (or s itself when converse) against s and its neighbourhood."""
    if not s:
        return
    if mode == 'gl' and only_seps(s, win):
        return
    prefix_only = False
    if mode == 'gl' and win:
        seps = '/\\'
        if s[0] in seps and s[1:2] and s[1] in seps:
            # UNC-like: duplicate separators inside a UNC prefix are not "the same path" on Windows, so such strings
            # are not judged, and for clean ones only self-match and "accepts something else" are
            rest = s[2:]
            if rest and rest[0] in seps and not any(a in seps and b in seps for a, b in zip(rest.lstrip(seps), rest.lstrip(seps)[1:])):
                # three or more leading separators are not a UNC prefix, just a root written with redundant separators: the string
                # must match itself and nothing that differs in another character (equivalent spellings are not judged)
                prefix_only = True
            elif not rest or rest[0] in seps or any(a in seps and b in seps for a, b in zip(rest, rest[1:])):
                return
            prefix_only = True
        elif s[1:2] == ':' and s[0].isalpha():
            prefix_only = len(s) <= 3
    case_flag = 'CASE' in names
    icase = (('IGNORECASE' in names) or win) and not case_flag
    fl = flagval(names, mode, win)
    if all(ord(c_) < 128 for c_ in s):
        # is_magic() answers the same for the bytes spelling of a text
        try:
            ms_ = (F.is_magic if mode == 'fn' else G.is_magic)(s, flags=fl)
            mb_ = (F.is_magic if mode == 'fn' else G.is_magic)(s.encode(), flags=fl)
        except Exception:
            ms_ = mb_ = None
        out.evaluations += 1
        if mode == 'gl' and ms_ is not None:
            # FORCEWIN together with FORCEUNIX means neither (this host's rules): is_magic() judges as every matching call does
            both_ = G.is_magic(s, flags=fl | G.FORCEWIN | G.FORCEUNIX)
            none_ = G.is_magic(s, flags=fl & ~(G.FORCEWIN | G.FORCEUNIX))
            if both_ != none_:
                out.violation({'s': s, 'hex': s.encode().hex(), 'pattern': s, 'flags': names, 'mode': mode, 'win': win, 'converse': converse, 'stream': stream,
                               'is_magic_both_platform_flags': both_, 'is_magic_without': none_,
                               'problem': 'is_magic() with FORCEWIN|FORCEUNIX differs from is_magic() with neither'},
                              size=len(s) * 10 + len(names), bucket=('is-magic-both', win))
                return
        if ms_ != mb_:
            out.violation({'s': s, 'hex': s.encode().hex(), 'pattern': s, 'flags': names, 'mode': mode, 'win': win, 'converse': converse, 'stream': stream,
                           'is_magic_str': ms_, 'is_magic_bytes': mb_, 'problem': 'is_magic() differs between str and bytes'},
                          size=len(s) * 10 + len(names), bucket=('is-magic-bytes', mode, win))
            return
    if converse:
        pat = s
        try:
            magic = (F.is_magic if mode == 'fn' else G.is_magic)(s, flags=fl)
        except Exception:
            return
        if magic:
            return
    else:
        if mode == 'fn':
            pat = F.escape(s)
        elif not win and len(s) % 2:
            pat = G.escape(s)             # default `unix=None`: this host's rules, i.e. Unix here
        else:
            pat = G.escape(s, unix=not win)
    case = {'s': s, 'hex': s.encode('utf-8', 'surrogatepass').hex(), 'pattern': pat, 'flags': names, 'mode': mode, 'win': win,
            'converse': converse, 'stream': stream}
    try:
        with util.watchdog(5):
            m = (F.compile if mode == 'fn' else G.compile)(pat, flags=fl)
            out.evaluations += 1
            if not m.match(s):
                out.violation(dict(case, problem='does not match itself'), size=len(s) * 10 + len(names),
                              bucket=('self', mode, win, converse))
                return
            if not converse and all(ord(c_) < 128 for c_ in s):
                # the bytes twin: escape(bytes) compiled with the same flags matches the same bytes
                bs = s.encode()
                if mode == 'fn':
                    bpat = F.escape(bs)
                elif not win and len(s) % 2:
                    bpat = G.escape(bs)
                else:
                    bpat = G.escape(bs, unix=not win)
                out.evaluations += 1
                if bpat != pat.encode():
                    out.violation(dict(case, problem='escape(bytes) differs from escape(str)', bytes_pattern=bpat.decode('latin-1')),
                                  size=len(s) * 10 + len(names), bucket=('bytes-escape', mode, win))
                    return
                im_ = (F.is_magic if mode == 'fn' else G.is_magic)
                if im_(pat, flags=fl) != im_(bpat, flags=fl):
                    out.violation(dict(case, problem='is_magic() of the escaped text differs between str and bytes', is_magic_str=im_(pat, flags=fl),
                                       is_magic_bytes=im_(bpat, flags=fl)), size=len(s) * 10 + len(names), bucket=('is-magic-escaped', mode, win))
                    return
                if not (F.compile if mode == 'fn' else G.compile)(bpat, flags=fl).match(bs):
                    out.violation(dict(case, problem='as bytes: does not match itself'), size=len(s) * 10 + len(names), bucket=('self-bytes', mode, win))
                    return
            cands = N.neighbours(s, PROBES + [c.swapcase() for c in s if c.isalpha()][:2])
            for t in ('a', '.', '/', '\n', 'a/'):
                cands.add(s + t)
                cands.add(t + s)
            for c in cands:
                if not c:
                    continue
                eq = equivalent(c, s, mode, win, icase)
                if eq is None:
                    continue
                if mode == 'gl' and only_seps(c, win):
                    continue
                if case_flag and win and mode == 'gl' and c != s and c.lower() == s.lower():
                    continue      # CASE under Windows rules: the drive / UNC part stays case-insensitive, the rest does not
                if prefix_only and eq:
                    continue
                if mode == 'gl' and win and eq and c[:2] != s[:2] and (c[0] in '/\\' or c[1:2] == ':'):
                    continue      # an edit that turns the start into (or out of) a root/drive/UNC spelling
                got = bool(m.match(c))
                out.evaluations += 1
                if got != eq:
                    out.violation(dict(case, name=c, impl=got, want=eq, problem='accepts something else' if got else 'rejects an equivalent spelling'),
                                  size=len(s) * 10 + len(names) + len(c), bucket=('nbr', mode, win, converse, got))
                    return
            sepset = '/\\' if win else '/'
            if mode == 'gl' and not converse and s[0] not in sepset and s[1:2] != ':' and any(ch in sepset for ch in s.rstrip(sepset)):
                # a pattern that contains a separator (however escape() had to write it) is not a bare base name: MATCHBASE adds nothing
                mb = G.compile(pat, flags=fl | G.MATCHBASE)
                out.evaluations += 1
                for c in (s, 'x/' + s, 'x/y/' + s) + (('x\\' + s,) if win else ()):
                    got = bool(mb.match(c))
                    if got != (c == s):
                        out.violation(dict(case, name=c, impl=got, want=c == s, flags=list(names) + ['MATCHBASE'],
                                           problem='with MATCHBASE: escape() of a string that contains a separator ' +
                                           ('accepts a longer path' if got else 'does not match itself')),
                                      size=len(s) * 10 + len(names) + len(c), bucket=('matchbase', win, got))
                        return
    except util.HarnessBudget:
        out.stats['watchdog_skipped'] += 1
        return
    except Exception as e:
        out.violation(dict(case, problem='exception', error=list(util.exc_bucket(e))), size=len(s) * 10, bucket=('exc', type(e).__name__))
        return
    if (set(s) & META) or (win and mode == 'gl' and (s[1:2] == ':' or s[:2] in ('//', '\\\\'))):
        out.nontrivial((s, tuple(names), mode, win, converse))


def shards(tier, seed, scale=1.0):
    out = []
    if tier == 'quick':
        S, maxlen, nsub, allsub_len, hyp_n = 16, 3, 8, 1, 1500
    else:
        S, maxlen, nsub, allsub_len, hyp_n = 64, 3, 24, 2, 6000
    for s in range(S):
        out.append({'name': 'enum-%d' % s, 'kind': 'enum', 'shard': s, 'of': S, 'maxlen': maxlen, 'nsub': nsub, 'seed': seed})
    A2 = 16
    for s in range(A2):
        out.append({'name': 'allflags-%d' % s, 'kind': 'allflags', 'shard': s, 'of': A2, 'maxlen': allsub_len})
    for s in range(16):
        out.append({'name': 'hyp-%d' % s, 'kind': 'hyp', 'seed': seed * 1000 + s, 'n': max(10, int(hyp_n * scale))})
    for s in range(4):
        out.append({'name': 'fs-%d' % s, 'kind': 'fs', 'shard': s, 'of': 4})
    for s in range(2):
        out.append({'name': 'shapes-%d' % s, 'kind': 'shapes', 'shard': s, 'of': 2})
    return out


def run_shard(desc):
    k = desc['kind']
    if k == 'enum':
        return run_enum(desc)
    if k == 'shapes':
        return run_shapes(desc)
    if k == 'allflags':
        return run_allflags(desc)
    if k == 'hyp':
        return run_hyp(desc)
    if k == 'fs':
        return run_fs(desc)
    raise HarnessError(k)


def subset(i):
    return [n for j, n in enumerate(FLAG_NAMES) if i >> j & 1]


def run_enum(desc):
    out = Outcome()
    out.exhaustive = True
    s, S = desc['shard'], desc['of']
    idx = 0
    for n in range(1, desc['maxlen'] + 1):
        for tup in itertools.product(ALPHA, repeat=n):
            idx += 1
            if idx % S != s:
                continue
            text = ''.join(tup)
            for j in range(desc['nsub']):
                # deterministic spread over the 4096 subsets (independent of the seed: this part is exhaustive in s only)
                sub = subset((idx * 2654435761 + j * 40503 + desc['seed'] * 977) % 4096)
                mode = 'fn' if (idx + j) % 2 else 'gl'
                win = (idx + j) % 3 == 0
                check_string(text, sub, mode, win, out, 'enum')
                if j == 0:
                    check_string(text, sub, mode, win, out, 'enum', converse=True)
            if idx % 2003 == s:
                out.sample({'s': text, 'escape': G.escape(text), 'stream': 'enum'})
    return out


def run_allflags(desc):
    out = Outcome()
    out.exhaustive = True
    s, S = desc['shard'], desc['of']
    idx = 0
    for n in range(1, desc['maxlen'] + 1):
        for tup in itertools.product(ALPHA, repeat=n):
            text = ''.join(tup)
            for i in range(4096):
                idx += 1
                if idx % S != s:
                    continue
                check_string(text, subset(i), 'fn' if i % 2 else 'gl', (i // 2 + len(text)) % 2 == 0, out, 'allflags')
    out.sample({'s': '!', 'flags': subset(4095), 'stream': 'allflags'})
    return out


UNIX_UNC_LIKE = ['//srv/sh*re/file', '//a/b', '//s?v/x[y]/f', '//srv/lo[gx]s/file', '//!a/-b/~c', '//a*/b']
WIN_SHAPES = ['c:/', 'c:', 'C:/a', 'c:\\a', '//host/share/', '//host/share/a', '\\\\host\\share\\a', '//?/UNC/h/s/a', '//?/c:/a',
              '//./c:/a', '//h{a,b}/s|t/a', '//?/GLOBAL/UNC/h/s/a', '//h[a]/s*/x', 'c:a', '/a', '//a']


SHAPES = WIN_SHAPES + ['///ser*ver/sha?re/x', '///a[bc]d/share/x', '\\\\\\h*/s/x', '////h/s*/x', '///h/s/a*', '///!a/-b/~c','//?/UNC/h[a]/s*/x', '//./UNC/s?v/sh{a,b}/f', '//?/GLOBAL/UNC/h*/s[x]/a', '//?/unc/h*/s?/a', '//?/Unc/h(a)/s|t/a', '//./Global/unc/h!/-s/~',
                       '//?/C:/a*', '//./c:/[a]', 'C:/*', 'c:/a?', '//HOST/SH*RE/a', '//h/s/@(a)', '//?/UNC/h/s/!(a)', '\\\\?\\UNC\\h*\\s\\a', 'c:\\[a]',
                       '//?/GLOBAL/unc/h/s*/a', '//?/global/UNC/h?/s/a', '//host/share/a*', '//?/UNC/h/s', '//?/c:']
SHAPE_FLAGS = ['CASE', 'IGNORECASE', 'EXTMATCH', 'BRACE', 'SPLIT', 'GLOBSTAR', 'NEGATE']


def run_shapes(desc):
    """Drive / UNC / device-namespace spellings with metacharacters in every part, under Windows rules in glob mode, for every subset
    of seven flags including CASE: the escaped string matches itself and nothing else; the raw string, when is_magic() says it
    is not magic, does too."""
    out = Outcome()
    out.exhaustive = True
    s, S = desc['shard'], desc['of']
    idx = 0
    for shape in SHAPES:
        for i in range(1 << len(SHAPE_FLAGS)):
            idx += 1
            if idx % S != s:
                continue
            names = [n for j, n in enumerate(SHAPE_FLAGS) if i >> j & 1]
            check_string(shape, names, 'gl', True, out, 'shapes')
            check_string(shape, names, 'gl', True, out, 'shapes', converse=True)
    out.sample({'stream': 'shapes', 'shapes': len(SHAPES), 'flag_subsets': 1 << len(SHAPE_FLAGS)})
    return out


def run_hyp(desc):
    from hypothesis import given, strategies as st, seed
    out = Outcome()
    text = st.one_of(st.text(alphabet=ALPHA, min_size=1, max_size=24),
                     st.tuples(st.sampled_from(WIN_SHAPES), st.text(alphabet=ALPHA, max_size=6)).map(lambda t: t[0] + t[1]),
                     st.text(alphabet=ALPHA + ['x', '1', '^', '+', ' ', '\t'], min_size=1, max_size=10),
                     st.tuples(st.sampled_from(UNIX_UNC_LIKE), st.text(alphabet=ALPHA, max_size=3)).map(lambda t: t[0] + t[1]))

    @seed(desc['seed'])
    @util.hyp_settings(desc['n'], shrink=False)
    @given(text, st.lists(st.sampled_from(FLAG_NAMES + ['CASE']), unique=True, max_size=12).map(sorted), st.sampled_from(['fn', 'gl']), st.booleans(),
           st.booleans())
    def test(s, names, mode, win, converse):
        out.stats['hyp_cases'] += 1
        out.stats['hyp_win_shape'] += any(s.startswith(w) for w in WIN_SHAPES)
        out.stats['hyp_len>8'] += len(s) > 8
        check_string(s, names, mode, win, out, 'hyp', converse=converse and len(s) < 12)
        if out.stats['hyp_cases'] % 83 == 1:
            out.sample({'s': s, 'flags': names, 'mode': mode, 'win': win, 'stream': 'hyp'})
    test()
    return out


FS_NAMES = ['~', '~root', '~nosuchuser', '*', '?', '[a]', '{a,b}', '!x', '-x', 'a|b', '@(a)', '!(a)', 'a b', 'a\\b', '(', ')', '[', ']', '{', '}', 'a', 'ab', 'x',
            '~a', '-', '!', '**', 'a~', '[!a]', '+(a)', '.~', '~.', 'A', 'AB', 'A|B', '{A,B}', '!~', '-~', '!~root', '-~root', '~root']
FS_SPEC = [('f', n) for n in FS_NAMES if '/' not in n] + [('d', 'd~'), ('f', 'd~/~'), ('d', 'D~'), ('f', 'D~/~')]
FS_DEEP = ['d~/~', 'D~/~']
FS_PLATS = [[], ['FORCEWIN'], ['FORCEWIN', 'FORCEUNIX']]


def fs_flagval(names, plat):
    fl = flagval(names, 'gl', False) & ~(F.FORCEUNIX | F.FORCEWIN)
    for n in plat:
        fl |= getattr(G, n)
    return fl


def run_fs(desc):
    """File names made of metacharacters on a real directory: glob(escape(name)) returns exactly that name and
    globmatch(REALPATH) accepts exactly that name, under every subset of the feature flags (GLOBTILDE only acts with REALPATH,
    which is why this part touches the file system)."""
    import os
    out = Outcome()
    out.exhaustive = True
    s, S = desc['shard'], desc['of']
    from .. import fscommon as FC
    with FC.built_tree(FS_SPEC) as (root, _r):
        on_disk = sorted(os.listdir(root))
        idx = 0
        for name in on_disk + FS_DEEP:
            for i in range(4096):
                idx += 1
                if idx % S != s or (i % 7 and i not in (0, 4095, 64, 1 << 6 | 1)):
                    continue
                names = subset(i)
                # the platform flags are ignored by anything that touches the file system: the host decides
                plat = FS_PLATS[(i // 7) % 3]
                fl = fs_flagval(names, plat)
                pat = G.escape(name)
                case = {'s': name, 'pattern': pat, 'flags': names, 'mode': 'fs', 'win': False, 'plat': plat}
                try:
                    with util.watchdog(5), util.ScandirCounter(2000):
                        res = G.glob(pat, flags=fl, root_dir=root)
                        acc = G.globfilter(on_disk + FS_DEEP + ['d~', 'D~'], pat, flags=fl | G.REALPATH, root_dir=root)
                except util.HarnessBudget:
                    out.stats['watchdog_skipped'] += 1
                    continue
                except Exception as e:
                    out.violation(dict(case, problem='exception', error=list(util.exc_bucket(e))), bucket=('fs-exc', type(e).__name__))
                    continue
                out.evaluations += 2
                icase = 'IGNORECASE' in names
                want = {n for n in on_disk + FS_DEEP if (n.lower() == name.lower() if icase else n == name)}
                if set(res) != want:
                    out.violation(dict(case, problem='glob(escape(name)) does not return exactly the name', got=sorted(res)[:6], want=sorted(want)),
                                  size=len(name) * 10 + len(names), bucket=('fs-glob', name))
                    continue
                if set(acc) != want:
                    out.violation(dict(case, problem='globmatch(REALPATH) of escape(name) does not accept exactly the name', got=sorted(acc)[:6],
                                       want=sorted(want)), size=len(name) * 10 + len(names), bucket=('fs-match', name))
                    continue
                # the converse on the file system: a name that is_magic() calls plain under these flags, used as it stands
                if '/' not in name and not G.is_magic(name, flags=fl):
                    try:
                        with util.watchdog(5), util.ScandirCounter(2000):
                            res2 = G.glob(name, flags=fl, root_dir=root)
                            acc2 = G.globfilter(on_disk, name, flags=fl | G.REALPATH, root_dir=root)
                    except util.HarnessBudget:
                        continue
                    except Exception as e:
                        out.violation(dict(case, pattern=name, problem='exception', error=list(util.exc_bucket(e))), bucket=('fs-plain-exc', type(e).__name__))
                        continue
                    out.evaluations += 2
                    if set(res2) != want or set(acc2) != want:
                        out.violation(dict(case, pattern=name, converse=True, problem='a pattern that is_magic() calls plain does not select exactly the entry of that name',
                                           got=sorted(res2)[:6], matched=sorted(acc2)[:6], want=sorted(want)), size=len(name) * 10 + len(names), bucket=('fs-plain', name))
                        continue
                out.nontrivial((name, tuple(names), 'fs'))
    out.sample({'mode': 'fs', 'names': on_disk[:12], 'flag_subsets_per_name': 4096 // 7})
    return out


def replay(case):
    util.clear_caches()
    if case.get('mode') == 'fs':
        import os
        from .. import fscommon as FC
        with FC.built_tree(FS_SPEC) as (root, _r):
            fl = fs_flagval(case['flags'], case.get('plat', []))
            res = G.glob(case['pattern'], flags=fl, root_dir=root)
            acc = G.globfilter(sorted(os.listdir(root)) + FS_DEEP + ['d~', 'D~'], case['pattern'], flags=fl | G.REALPATH, root_dir=root)
            icase = 'IGNORECASE' in case['flags']
            want = {n for n in sorted(os.listdir(root)) + FS_DEEP if (n.lower() == case['s'].lower() if icase else n == case['s'])}
            return set(res) == want and set(acc) == want, {'glob': res, 'matched': acc, 'want': sorted(want)}
    o = Outcome()
    check_string(case['s'], case['flags'], case['mode'], case['win'], o, 'replay', converse=case.get('converse', False))
    return (not o.violations), [dict(problem=v[2].get('problem'), name=v[2].get('name')) for v in o.violations]


def shrink(case):
    if '_regression_of' in case:
        return case
    s, names = case['s'], list(case['flags'])

    def fails(s2, n2):
        ok, _ = replay(dict(case, s=s2, flags=n2))
        return not ok
    if not fails(s, names):
        return case
    changed = True
    while changed:
        changed = False
        for i in range(len(s)):
            t = s[:i] + s[i + 1:]
            if t and fails(t, names):
                s = t
                changed = True
                break
        for f in list(names):
            g = [x for x in names if x != f]
            if fails(s, g):
                names = g
                changed = True
    o = Outcome()
    check_string(s, names, case['mode'], case['win'], o, 'shrunk', converse=case.get('converse', False))
    return o.violations[0][2] if o.violations else dict(case, s=s, flags=names)
