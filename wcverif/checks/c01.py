"""C01 - file-name matching follows the documented wildcard language (fnmatch mode, names not governed by C03)."""
import itertools

from ..runner import Outcome, HarnessError
from .. import ast as A, ref as R, names as N, lang, util
from ..util import F, G

PROPERTY = 'C01'
RULE = ('case = (pattern AST, flag configuration, name); patterns: every AST within a token budget (atoms a b . ? * [a.] [!a], '
        'groups ?( *( +( @( !( nested <= 2, <= 2 alternatives) and Hypothesis ASTs of budget <= 12 over a 27-character literal '
        'alphabet with ranges and all 14 POSIX classes; names: every string up to length N over one representative per '
        'minterm of the pattern (exhaustive for all names up to N), model-guided accepted names up to length 24 and their '
        'edit-distance-1 neighbours; evaluations count (pattern, name) pairs with a decided (non-EITHER) reference verdict '
        'in C01\'s domain (DOTMATCH, or name not starting with "."); non-trivial = pattern has a wildcard or group and both '
        'MUST and MUSTNOT names occurred for it; distinct = distinct (pattern text, configuration)')
ASSUMPTIONS = [
    'reference matcher wcverif/ref.py (set-of-end-positions evaluation on the AST, C-locale POSIX table) is the documented meaning',
    '`!(...)` outside the exact fragment named by the property (nested, containing negation, or followed by non-literals) is EITHER unless even "any span" in its place cannot match',
    'non-ASCII case folding is not judged',
]

PROP_DOMAIN = 'C01'


def select_c01(dot):
    if dot:
        return lambda nm: True
    return lambda nm: nm[:1] != '.'


def shards(tier, seed, scale=1.0):
    out = []
    if tier == 'quick':
        budget, nlen, S, hyp_n = 3, 4, 24, 250
    else:
        # every AST of budget 4 (353 k patterns) on all names up to length 4, and budget 3 on all names up to length 5
        budget, nlen, S, hyp_n = 4, 4, 256, 4000
        for s in range(32):
            out.append({'name': 'enum3x5-%d' % s, 'kind': 'enum', 'shard': s, 'of': 32, 'budget': 3, 'nlen': 5})
    for s in range(S):
        out.append({'name': 'enum-%d' % s, 'kind': 'enum', 'shard': s, 'of': S, 'budget': budget, 'nlen': nlen})
    for s in range(16):
        out.append({'name': 'hyp-%d' % s, 'kind': 'hyp', 'seed': seed * 1000 + s, 'n': max(10, int(hyp_n * scale))})
    out.append({'name': 'posix', 'kind': 'posix', 'seed': seed})
    L = 8 if tier == 'quick' else 32
    for s in range(L):
        out.append({'name': 'loose-%d' % s, 'kind': 'loose', 'shard': s, 'of': L, 'budget': 3 if tier == 'quick' else 4, 'nlen': 3})
    B = 8
    for s in range(B):
        out.append({'name': 'bash-%d' % s, 'kind': 'bash', 'shard': s, 'of': B, 'every': 8 if tier == 'quick' else 1, 'budget': 3})
    return out


def run_shard(desc):
    if desc['kind'] == 'enum':
        return run_enum(desc, PROPERTY, select_c01)
    if desc['kind'] == 'hyp':
        return run_hyp(desc, PROPERTY, select_c01)
    if desc['kind'] == 'posix':
        return run_posix(desc)
    if desc['kind'] == 'loose':
        return run_loose(desc, PROPERTY, select_c01)
    if desc['kind'] == 'bash':
        return run_bash(desc)
    raise HarnessError(desc['kind'])


def run_enum(desc, prop, selector, hidden_bias=False, dots=(False, True)):
    out = Outcome()
    out.exhaustive = True
    armed = desc['armed']
    s, S = desc['shard'], desc['of']
    extra_atoms = ()
    idx = 0
    for seq in A.enum_upto(desc['budget'], A.atoms_default(extra_atoms)):
        idx += 1
        if idx % S != s:
            continue
        with_nl = A.has_ext(seq, '!') or idx % 8 == 0
        alpha, complete = N.representatives([seq], extra='.\n' if with_nl else '.', cap=5)
        if not complete:
            out.stats['alphabet_capped'] += 1
        names = list(N.all_names(alpha, desc['nlen']))
        out.stats['patterns'] += 1
        out.stats['patterns_with_ext'] += A.has_ext(seq)
        out.stats['patterns_with_neg'] += A.has_ext(seq, '!')
        out.stats['patterns_leading_dot_lit'] += seq[:1] == (('lit', '.'),)
        for dot in dots:
            cfg = {'dot': dot, 'ext': True}
            if idx % 2 and A.render(seq, True, 1 + idx % 15) != A.render(seq):
                cfg['variant'] = 1 + idx % 15     # an equivalent spelling: `[^..]`, bare first `]` / last `-`, `\\.`
            lang.eval_fn(seq, cfg, names, out, armed, prop, selector(dot), entry=idx % 3)
        if idx % 4 == 0 and A.has_ext(seq) and True in dots:
            cfg = {'dot': True, 'ext': False}
            lang.eval_fn(seq, cfg, names + ['@(a)', '(a)', 'a|b', '!(a)', '+(a)', '@(', ')'], out, armed, prop,
                         selector(True), entry=idx % 3)
        if idx % 1499 == s:
            out.sample({'pattern': A.render(seq), 'alphabet': alpha, 'names': len(names), 'stream': 'enum'})
    return out


LOOSE_ATOMS = (A.lit('a'), A.lit('.'), A.lit('('), A.lit(')'), A.lit('|'), A.lit('!'), A.lit('@'), A.lit('{'), A.ANY, A.STAR)


def run_loose(desc, prop, selector, dots=(False, True)):
    """Patterns whose literals are metacharacters, written with as few backslashes as possible (`*(x`, `a|b`, `!a`, `@(a` ...):
    constructs that cannot be completed must degrade to their literal meaning."""
    out = Outcome()
    out.exhaustive = True
    armed = desc['armed']
    s, S = desc['shard'], desc['of']
    idx = 0
    for seq in A.enum_upto(desc['budget'], LOOSE_ATOMS, kinds='?*@!', max_depth=1, max_alts=2):
        idx += 1
        if idx % S != s:
            continue
        if A.render_loose(seq) == A.render(seq):
            continue
        alpha, _c = N.representatives([seq], extra='.', cap=6)
        names = list(N.all_names(alpha, desc['nlen']))
        out.stats['loose_patterns'] += 1
        for dot in dots:
            lang.eval_fn(seq, {'dot': dot, 'ext': True, 'loose': True}, names, out, armed, prop, selector(dot), entry=idx % 3, stream='loose')
        if idx % 701 == s:
            out.sample({'pattern': A.render_loose(seq), 'strict_spelling': A.render(seq), 'names': len(names), 'stream': 'loose'})
    return out


def run_hyp(desc, prop, selector, hidden_bias=False):
    from hypothesis import given, strategies as st, seed
    out = Outcome()
    armed = desc['armed']
    big = desc['tier'] == 'thorough'

    @seed(desc['seed'])
    @util.hyp_settings(desc['n'], shrink=False)
    @given(A.st_seq(max_budget=12 if big else 8, max_depth=4 if big else 3, max_alts=4 if big else 3), st.booleans(),
           st.sampled_from(['', '', 'icase', 'case', 'unix', 'icase+case']), st.integers(0, 2), st.data())
    def test(seq, dot, mode, entry, data):
        if not seq:
            return
        icase = mode in ('icase', 'icase+case')
        cfg = {'dot': dot, 'ext': True}
        if entry == 1 and A.render_loose(seq) != A.render(seq):
            cfg['loose'] = True
        elif entry == 2:
            cfg['variant'] = data.draw(st.integers(0, 15))
        if mode == 'icase':
            cfg['icase'] = True
        elif mode == 'case':
            cfg['case'] = True
        elif mode == 'unix':
            cfg['unix'] = True
        elif mode == 'icase+case':
            cfg['icase'] = True
            cfg['case'] = True
        eff_icase = cfg.get('icase') and not cfg.get('case')
        draw_int = lambda lo, hi: data.draw(st.integers(lo, hi))
        alpha, _complete = N.representatives([seq], icase=bool(eff_icase), extra='.\n' if hidden_bias else '.', cap=4)
        names = set(N.all_names(alpha, 3))
        guided = N.guided_names(seq, draw_int, want=4)
        probes = alpha + ('.' if hidden_bias else '')
        for g in guided:
            names.add(g)
            if len(g) <= 16:
                names |= set(list(N.neighbours(g, probes[:4]))[:80])
            if eff_icase:
                names.add(g.swapcase())
                names.add(g.upper())
            if hidden_bias:
                names.add('.' + g)
        names.discard('')
        names = sorted(names)
        out.stats['hyp_patterns'] += 1
        out.stats['hyp_with_ext'] += A.has_ext(seq)
        out.stats['hyp_with_neg'] += A.has_ext(seq, '!')
        out.stats['hyp_neg_exact'] += A.has_ext(seq, '!') and A.neg_exact(seq)
        out.stats['hyp_size>6'] += A.size(seq) > 6
        out.stats['hyp_long_names'] += sum(1 for n in names if len(n) > 6)
        lang.eval_fn(seq, cfg, names, out, armed, prop, selector(dot), entry=entry, stream='hyp')
        if out.stats['hyp_patterns'] % 61 == 1:
            out.sample({'pattern': A.render(seq), 'cfg': cfg, 'names': len(names), 'longest': max(names, key=len), 'stream': 'hyp'})
    test()
    return out


def run_bash(desc):
    """Differential side-oracle: Bash 5.2 `[[ name == pattern ]]` with extglob on the shared syntax.  Three-way vote with the
    reference: a wcmatch/Bash difference is reported only when the reference does not side with wcmatch (Bash has quirks of its
    own); reference/Bash differences where wcmatch agrees with Bash are counted as a self-check of the model."""
    from .. import bash as B, findings as K
    out = Outcome()
    armed = desc['armed']
    if not B.available():
        out.notes.append('bash not found: Bash side-oracle skipped')
        out.evaluations += 1
        out.nontrivial('skipped-a')
        out.nontrivial('skipped-b')
        return out
    s, S = desc['shard'], desc['of']
    idx = 0
    for seq in A.enum_upto(desc['budget'], A.atoms_default()):
        idx += 1
        if idx % desc['every'] or (idx // desc['every']) % S != s:
            continue
        text = A.render(seq)
        if not B.safe_text(text) or any(len(n[2]) == 0 or any(len(a) == 0 for a in n[2]) for n in A.walk(seq) if n[0] == 'ext'):
            continue
        alpha, _c = N.representatives([seq], extra='.', cap=4)
        names = [n for n in N.all_names(alpha, 3) if '\n' not in n and '/' not in n and B.safe_text(n) is not None and n.isprintable() and ' ' not in n]
        if not names:
            continue
        try:
            bacc = B.matches_many(names, text)
        except Exception as e:
            out.stats['bash_errors'] += 1
            continue
        acc = set(F.filter(names, text, flags=F.EXTMATCH | F.DOTMATCH))
        out.stats['bash_patterns'] += 1
        for nm in names:
            if nm[0] == '.':
                continue       # Bash's own leading-dot rule for [[ ]] is not dotglob; hidden names belong to C03
            v = R.name_verdict(seq, nm, True)
            w, b = nm in acc, nm in bacc
            out.evaluations += 1
            if v != R.EITHER and (v == R.MUST) != b and w == b:
                out.stats['model_selfcheck_reference_differs_from_bash_and_wcmatch'] += 1
                out.notes.append('reference differs from Bash and wcmatch: %r vs %r' % (text, nm)) if len(out.notes) < 5 else None
            if w != b:
                if (w and v == R.MUST) or (not w and v == R.MUSTNOT):
                    out.stats['bash_quirk_reference_sides_with_wcmatch'] += 1
                    continue
                if v == R.EITHER and not A.neg_exact(seq):
                    # `!(...)` followed by a wildcard or nested in another negation: the statement leaves it open (wcmatch's
                    # look-ahead reading and Bash's differ there, e.g. `!(b)*` vs 'b'); counted, not judged
                    out.either += 1
                    out.stats['bash_differs_outside_the_negation_fragment'] += 1
                    continue
                ids = K.seg_classes(seq, nm, True, False, False, w, R.MUSTNOT if w else R.MUST, text)
                hit = sorted(ids & set(armed))
                case = {'mode': 'fn', 'ast': A.to_json(seq), 'pattern': text, 'cfg': {'dot': True, 'ext': True}, 'name': nm, 'verdict': v,
                        'impl': w, 'bash': b, 'stream': 'bash'}
                if hit:
                    out.known_hit(hit[0], case)
                else:
                    out.violation(case, size=A.size(seq) * 100 + len(nm), bucket=('bash', w, v))
        if A.has_wild(seq) and acc and len(acc) < len(names):
            out.nontrivial(('bash', text))
        if out.stats['bash_patterns'] % 29 == 1:
            out.sample({'pattern': text, 'names': len(names), 'bash_accepts': len(bacc), 'stream': 'bash'})
    return out


def run_posix(desc):
    """Every code point 0..255 plus a spread of the rest of Unicode against every POSIX class and its negation."""
    out = Outcome()
    out.exhaustive = True
    points = list(range(256)) + [0x100, 0x17f, 0x212a, 0x3b1, 0x4e00, 0x2028, 0xfffd, 0x1f600, 0x10ffff] + \
        [257 + (i * 2749) % 0x10fe00 for i in range(391)]
    # code points that the regex engine's own classes (\\d \\s \\w, str.isupper ...) count in although the C-locale classes do not
    points += list(range(0x660, 0x66a)) + list(range(0xff10, 0xff1a)) + list(range(0x2000, 0x200e)) + \
        [0x966, 0xe52, 0x1d7ce, 0x1d7ff, 0xb2, 0xb9, 0xbc, 0x2160, 0x2460, 0xaa, 0xb5, 0xba, 0xc0, 0xdf, 0xe0, 0xff, 0x130, 0x131, 0x1c5, 0x2b0, 0x2c6,
         0x391, 0x3c2, 0x3a3, 0x410, 0x430, 0xff21, 0xff41, 0xa0, 0x85, 0x1680, 0x2028, 0x2029, 0x202f, 0x205f, 0x3000, 0xfeff, 0xad, 0x203f,
         0x2040, 0xfe33, 0xff3f, 0x300, 0x903, 0x2e80, 0x3007, 0xa1, 0xbf, 0x2010, 0x2018, 0x20ac, 0xe000, 0xf8ff, 0x10000, 0xe0001]
    points = list(dict.fromkeys(p for p in points if not 0xd800 <= p <= 0xdfff))
    chars = [chr(p) for p in points]
    for name in A.POSIX_NAMES:
        for neg in (False, True):
            for extra in ((), (('c', 'q'),)):
                node = ('set', neg, (('p', name),) + extra)
                seq = (node,)
                text = A.render(seq)
                acc = set(F.filter(chars, text, flags=F.DOTMATCH))
                must = mustnot = 0
                for c in chars:
                    want = R.set_has(node, c)
                    out.evaluations += 1
                    must += want
                    mustnot += not want
                    if (c in acc) != want:
                        out.violation({'mode': 'fn', 'ast': A.to_json(seq), 'pattern': text, 'cfg': {'dot': True, 'ext': True},
                                       'name': c, 'codepoint': ord(c), 'verdict': R.MUST if want else R.MUSTNOT,
                                       'impl': c in acc, 'stream': 'posix'}, size=10, bucket=('posix', name, neg))
                if must and mustnot:
                    out.nontrivial(('posix', text))
    # bracket expressions written by hand, with the members spelled out: where `-`, `]`, `!`, `^` and `\\` stand decides
    # whether they are literal, and a range may start at a literal leading `-` or `]`
    rng = lambda a, b: set(map(chr, range(ord(a), ord(b) + 1)))
    table = [('[--9]', rng('-', '9'), False), ('[!--9]', rng('-', '9'), True), ('[]-a]', rng(']', 'a'), False), ('[!]-a]', rng(']', 'a'), True),
             ('[]a-c]', set(']abc'), False), ('[-a-c]', set('-abc'), False), ('[a-c-]', set('abc-'), False), ('[]-]', set(']-'), False),
             ('[--/]', rng('-', '/'), False), ('[+--]', rng('+', '-'), False), ('[a\\-z]', set('a-z'), False), ('[\\--9]', rng('-', '9'), False),
             ('[\\]-a]', rng(']', 'a'), False), ('[%--]', rng('%', '-'), False), ('[!-a]', set('-a'), True), ('[^-a]', set('-a'), True),
             ('[a^]', set('a^'), False), ('[a!]', set('a!'), False), ('[]]', set(']'), False), ('[!]]', set(']'), True), ('[a-]', set('a-'), False),
             ('[-]', set('-'), False), ('[!-]', set('-'), True), ('[\\\\]', set('\\'), False), ('[a\\]b]', set('a]b'), False),
             ('[--]', set('-'), False), ('[0-9-a]', rng('0', '9') | set('-a'), False), ('[]-]]', None, None),
             # a caret (or `!`) that follows a dropped reversed range is a member, not a negation
             ('[z-a^b]', set('^b'), False), ('[z-a^]', set('^'), False), ('[!z-a^b]', set('^b'), True), ('[b-a^-c]', rng('^', 'c'), False),
             ('[z-a!b]', set('!b'), False), ('[z-ay-b^x]', set('^x'), False), ('[b-a]', set(), False), ('[!b-a]', set(), True),
             # an escaped backslash as a range endpoint
             ('[A-\\\\]', rng('A', '\\'), False), ('[!A-\\\\]', rng('A', '\\'), True), ('[0-\\\\]', rng('0', '\\'), False),
             ('[\\\\-a]', rng('\\', 'a'), False), ('[\\\\-\\]]', rng('\\', ']'), False), ('[%-\\\\x]', rng('%', '\\') | set('x'), False),
             ('[\\\\-A]', set(), False), ('[!\\\\-A]', set(), True)]
    # bracket expressions that hold a bar (after an escaped `]`, a leading `]`, a POSIX class ...)
    BAR_SETS = {'[\\]|]': set(']|'), '[]|]': set(']|'), '[a\\]|b]': set('a]|b'), '[|]': set('|'), '[!|]': None, '[[:alpha:]|]': None, '[\\\\|]': set('\\|'),
                '[a|b]': set('a|b')}
    table = list(table) + [(t_, m_, False) for t_, m_ in BAR_SETS.items() if m_ is not None] + [('[!|]', set('|'), True)]
    ascii_chars = [chr(i) for i in range(1, 128) if chr(i) != '/']
    for text, members, neg in table:
        if members is None:
            continue
        for prefix, suffix in (('', ''), ('x', ''), ('', 'y'), ('@(', '|q)z')):
            pat = prefix + text + suffix
            tail = 'z' if suffix.endswith('z') else suffix
            names = [prefix.replace('@(', '') + c + tail for c in ascii_chars]
            try:
                acc = set(F.filter(names, pat, flags=F.DOTMATCH | F.EXTMATCH))
                bacc = set(F.filter([n.encode() for n in names], pat.encode(), flags=F.DOTMATCH | F.EXTMATCH))
                if '|' not in pat.replace('|q)', '') or text in BAR_SETS:
                    # SPLIT changes nothing for a pattern whose only bars stand inside a bracket expression (or inside the group)
                    sacc = set(F.filter(names, pat, flags=F.DOTMATCH | F.EXTMATCH | F.SPLIT))
                    if sacc != acc:
                        d_ = sorted(sacc ^ acc)[0]
                        out.violation({'mode': 'fn', 'pattern': pat, 'cfg': {'dot': True, 'ext': True}, 'name': d_, 'verdict': R.MUST if d_ in acc else R.MUSTNOT,
                                       'impl': d_ in sacc, 'stream': 'brackets-split', 'raw': True, 'flags': F.DOTMATCH | F.EXTMATCH | F.SPLIT,
                                       'flags_without_negate': F.DOTMATCH | F.EXTMATCH,
                                       'problem': 'SPLIT changes the meaning of a pattern whose bars all stand inside a bracket expression'},
                                      size=10, bucket=('brackets-split', text))
                        break
            except Exception as e:
                out.violation({'mode': 'fn', 'pattern': pat, 'cfg': {'dot': True, 'ext': True}, 'name': names[0], 'verdict': R.MUSTNOT,
                               'impl': type(e).__name__, 'stream': 'brackets', 'raw': True, 'problem': 'exception'}, size=10, bucket=('brackets-exc', text))
                continue
            for c, n in zip(ascii_chars, names):
                want = ((c in members) != neg) or (prefix == '@(' and c == 'q')
                out.evaluations += 1
                if (n in acc) != want or (n.encode() in bacc) != want:
                    out.violation({'mode': 'fn', 'pattern': pat, 'cfg': {'dot': True, 'ext': True}, 'name': n, 'verdict': R.MUST if want else R.MUSTNOT,
                                   'impl': n in acc, 'impl_bytes': n.encode() in bacc, 'stream': 'brackets', 'raw': True},
                                  size=10, bucket=('brackets', text))
                    break
        out.nontrivial(('brackets', text))
    # a pattern that starts with `!(` is an extended group under EXTMATCH also when NEGATE (and NEGATEALL) are set - as str and as bytes,
    # through every entry point: the answers are those without NEGATE
    neg_pats = ['!(a|b)', '!(a)', '!(*.txt)', '!(a)*', '!(!(a))', '!()', '!(a|b)c', '!(?)', '!([ab])x']
    neg_names = ['a', 'b', 'c', 'ab', 'ac', 'bc', 'a.txt', 'x', 'ax', 'cx', '', '!(a)', '(a)', '(a|b)', '!']
    for mod in (F, G):
        for pat in neg_pats:
            for extra in (mod.NEGATE, mod.NEGATE | mod.NEGATEALL, mod.NEGATE | mod.DOTMATCH, mod.NEGATE | mod.SPLIT):
                for conv in (lambda x: x, lambda x: x.encode()):
                    names = [conv(n) for n in neg_names]
                    base = mod.EXTMATCH | (extra & ~(mod.NEGATE | mod.NEGATEALL))
                    flt = mod.filter if mod is F else mod.globfilter
                    one = mod.fnmatch if mod is F else mod.globmatch
                    try:
                        want = flt(names, conv(pat), flags=base)
                        got = flt(names, conv(pat), flags=base | extra)
                        got1 = [n for n in names if one(n, conv(pat), flags=base | extra)]
                        got2 = [n for n in names if mod.compile(conv(pat), flags=base | extra).match(n)]
                    except Exception as e:
                        out.violation({'mode': 'fn' if mod is F else 'gl', 'pattern': pat, 'cfg': {'ext': True}, 'name': neg_names[0], 'verdict': R.MUSTNOT,
                                       'impl': type(e).__name__, 'stream': 'neg-opener', 'raw': True, 'problem': 'exception', 'flags': base | extra},
                                      size=10, bucket=('neg-opener-exc', pat))
                        continue
                    out.evaluations += 3 * len(names)
                    for label, g in (('filter', got), ('match', got1), ('compiled', got2)):
                        if g != want:
                            d = sorted(set(g) ^ set(want))[0]
                            out.violation({'mode': 'fn' if mod is F else 'gl', 'pattern': pat, 'cfg': {'ext': True}, 'name': d if isinstance(d, str) else d.decode(),
                                           'bytes': isinstance(d, bytes), 'verdict': R.MUST if d in want else R.MUSTNOT, 'impl': d in g, 'entry': label,
                                           'stream': 'neg-opener', 'raw': True, 'flags': base | extra, 'flags_without_negate': base,
                                           'problem': 'a leading `!(` under EXTMATCH is answered differently when NEGATE is set'},
                                          size=10, bucket=('neg-opener', pat))
                            break
            out.nontrivial(('neg-opener', mod.__name__, pat))
    # in name mode `/` is an ordinary character, and so is `\\/`: writing the slashes of a pattern escaped changes nothing (no new
    # "start of a name" after it, no folding of repeated slashes, no end of a negation's reach)
    sl_pats = ['lib/*', 'lib/?x', 'lib/[.x]', 'a//b', '!(a)/b', 'a/*', '*/*', '+(a/)b', 'lib/.*', '*/', '/*', 'a/!(b)', '?/?', '@(a/b|c)/d', 'a/[!x]*']
    sl_names = ['lib/.hidden', 'lib/', 'lib/x', 'lib/.x', 'a/b', 'a//b', 'b/b', 'a/', '/a', '/', 'a/.b', 'lib/.', 'a/bb', 'a/b/d', 'c/d', 'a/ab', 'a/a/b', 'lib/..',
                'lib/xx', '/.a', 'a/c', 'aa/b']
    for pat in sl_pats:
        esc = pat.replace('/', '\\/')
        for fl in (0, F.DOTMATCH, F.EXTMATCH, F.EXTMATCH | F.DOTMATCH, F.IGNORECASE):
            for conv in (lambda x: x, lambda x: x.encode()):
                names = [conv(n) for n in sl_names]
                try:
                    a = F.filter(names, conv(pat), flags=fl)
                    b = F.filter(names, conv(esc), flags=fl)
                except Exception as e:
                    out.violation({'mode': 'fn', 'pattern': esc, 'plain': pat, 'flags': fl, 'stream': 'escaped-slash', 'raw': True, 'name': sl_names[0],
                                   'verdict': R.MUSTNOT, 'cfg': {}, 'problem': 'exception ' + type(e).__name__}, size=10, bucket=('escaped-slash-exc', pat))
                    continue
                out.evaluations += len(names)
                if a != b:
                    d = sorted(set(a) ^ set(b))[0]
                    out.violation({'mode': 'fn', 'pattern': esc, 'plain': pat, 'flags': fl, 'stream': 'escaped-slash', 'raw': True, 'bytes': isinstance(d, bytes),
                                   'name': d if isinstance(d, str) else d.decode(), 'verdict': R.MUST if d in a else R.MUSTNOT, 'cfg': {},
                                   'problem': 'in name mode a pattern with escaped slashes is answered differently from the same pattern with plain slashes'},
                                  size=10, bucket=('escaped-slash', pat))
        out.nontrivial(('escaped-slash', pat))
    out.sample({'pattern': '[[:punct:]]', 'names': len(chars), 'stream': 'posix'})
    return out


def replay(case):
    if case.get('stream') == 'brackets-split':
        a = bool(F.fnmatch(case['name'], case['pattern'], flags=case['flags']))
        b = bool(F.fnmatch(case['name'], case['pattern'], flags=case['flags_without_negate']))
        return a == b, {'with_split': a, 'without': b}
    if case.get('stream') == 'neg-opener':
        mod = F if case['mode'] == 'fn' else G
        conv = (lambda x: x.encode()) if case.get('bytes') else (lambda x: x)
        one = mod.fnmatch if mod is F else mod.globmatch
        try:
            a = bool(one(conv(case['name']), conv(case['pattern']), flags=case['flags']))
            b = bool(one(conv(case['name']), conv(case['pattern']), flags=case['flags_without_negate']))
        except Exception as e:
            return False, {'exception': type(e).__name__}
        return a == b, {'with_negate': a, 'without': b}
    if case.get('stream') == 'escaped-slash':
        conv = (lambda x: x.encode()) if case.get('bytes') else (lambda x: x)
        a = bool(F.fnmatch(conv(case['name']), conv(case['pattern']), flags=case['flags']))
        b = bool(F.fnmatch(conv(case['name']), conv(case['plain']), flags=case['flags']))
        return a == b, {'escaped': a, 'plain': b}
    if case.get('raw'):
        try:
            F.compile(case['pattern'], flags=F.DOTMATCH | F.EXTMATCH)
        except Exception as e:
            return False, {'exception': type(e).__name__}
        got = F.fnmatch(case['name'], case['pattern'], flags=F.DOTMATCH | F.EXTMATCH)
        gotb = F.fnmatch(case['name'].encode(), case['pattern'].encode(), flags=F.DOTMATCH | F.EXTMATCH)
        want = case['verdict'] == R.MUST
        return bool(got) == want and bool(gotb) == want, {'impl': bool(got), 'impl_bytes': bool(gotb), 'want': want}
    return lang.replay_case(case)


def shrink(case):
    if case.get('raw'):
        return case
    return lang.shrink_case(case)
