"""C03 - hidden names and the special directories are never matched by wildcards."""
import os

from ..runner import Outcome, HarnessError
from .. import ast as A, ref as R, names as N, lang, util
from ..util import F, G, WM
from . import c01, c02

PROPERTY = 'C03'
RULE = ('case = (pattern AST, configuration, name or path) restricted to C03\'s domain: a name/segment beginning with "." while '
        'DOTMATCH/DOTGLOB is off, or a path segment that is exactly "." or ".." (any DOTGLOB/NODOTDIR setting); the same '
        'bounded-exhaustive and Hypothesis pattern streams as C01 (fnmatch mode) and C02 (glob mode, incl. MATCHBASE and '
        'pathlib PurePath.match with its implicit prefix); three-valued oracle: MUSTNOT when the leading dot cannot be consumed '
        'by a written "." (lenient model), MUST when it can with no wildcard standing there (strict model); plus exclusion '
        'patterns behaving as if DOTGLOB were set (metamorphic) and glob()/WcMatch results on dot-rich trees judged by the same '
        'reference; non-trivial = pattern contains a wildcard and the name/segment is hidden or special and both verdicts '
        'occurred for the pattern')
ASSUMPTIONS = c01.ASSUMPTIONS + c02.ASSUMPTIONS + [
    'EITHER zone between the two one-sided claims of the statement (hidden name accepted by the lenient but not the strict model)',
]


def select_fn(dot):
    if dot:
        return lambda nm: False
    return lambda nm: nm[:1] == '.'


def select_path(cfg):
    dot = bool(cfg.get('dot'))

    def sel(path):
        for seg in R.split_path(path)[1]:
            if seg in ('.', '..'):
                return True
            if not dot and seg[0] == '.':
                return True
        return False
    return sel


PATHLIB_CONFIGS = [{'pathlib': True}, {'pathlib': True, 'globstar': True}, {'pathlib': True, 'dot': True},
                   {'pathlib': True, 'globstar': True, 'nodotdir': True}]


def shards(tier, seed, scale=1.0):
    out = []
    if tier == 'quick':
        fb, nlen, FS, pb, PS, hyp_n, ncfg = 3, 4, 12, 3, 32, 120, 3
    else:
        fb, nlen, FS, pb, PS, hyp_n, ncfg = 4, 4, 128, 4, 256, 2000, 2
    for s in range(FS):
        out.append({'name': 'fn-enum-%d' % s, 'kind': 'fn-enum', 'shard': s, 'of': FS, 'budget': fb, 'nlen': nlen})
    for s in range(PS):
        out.append({'name': 'path-enum-%d' % s, 'kind': 'path-enum', 'shard': s, 'of': PS, 'budget': pb, 'plen': 5 if tier == 'quick' else 4,
                    'ncfg': ncfg})
    if tier != 'quick':
        for s in range(32):
            out.append({'name': 'path-enum3x5-%d' % s, 'kind': 'path-enum', 'shard': s, 'of': 32, 'budget': 3, 'plen': 5, 'ncfg': 5})
            out.append({'name': 'fn-enum3x5-%d' % s, 'kind': 'fn-enum', 'shard': s, 'of': 32, 'budget': 3, 'nlen': 5})
    for s in range(8):
        out.append({'name': 'fn-hyp-%d' % s, 'kind': 'fn-hyp', 'seed': seed * 1000 + s, 'n': max(10, int(hyp_n * scale))})
        out.append({'name': 'path-hyp-%d' % s, 'kind': 'path-hyp', 'seed': seed * 1000 + 100 + s, 'n': max(10, int(hyp_n * scale))})
    for s in range(4):
        out.append({'name': 'pathlib-%d' % s, 'kind': 'pathlib', 'shard': s, 'of': 4 * (8 if tier == 'quick' else 1),
                    'budget': 3, 'plen': 5})
    L = 8 if tier == 'quick' else 32
    for s in range(L):
        out.append({'name': 'loose-%d' % s, 'kind': 'loose', 'shard': s, 'of': L, 'budget': 3 if tier == 'quick' else 4, 'nlen': 3})
    for s in range(2):
        out.append({'name': 'sets-%d' % s, 'kind': 'sets', 'shard': s, 'of': 2})
    out.append({'name': 'exclude', 'kind': 'exclude', 'seed': seed, 'n': int((400 if tier == 'quick' else 6000) * scale)})
    out.append({'name': 'fs', 'kind': 'fs', 'seed': seed, 'n': int((150 if tier == 'quick' else 2500) * scale)})
    return out


def run_shard(desc):
    k = desc['kind']
    if k == 'fn-enum':
        return c01.run_enum(desc, PROPERTY, select_fn, hidden_bias=True, dots=(False,))
    if k == 'path-enum':
        return c02.run_enum(desc, PROPERTY, select_path)
    if k == 'fn-hyp':
        return c01.run_hyp(desc, PROPERTY, select_fn, hidden_bias=True)
    if k == 'path-hyp':
        return c02.run_hyp(desc, PROPERTY, select_path)
    if k == 'pathlib':
        return run_pathlib(desc)
    if k == 'loose':
        return c01.run_loose(desc, PROPERTY, select_fn, dots=(False,))
    if k == 'sets':
        return c02.run_sets(desc, PROPERTY, select_path)
    if k == 'exclude':
        return run_exclude(desc)
    if k == 'fs':
        return run_fs(desc)
    raise HarnessError(k)


def run_pathlib(desc):
    """PurePath.match: the implicit prefix must not swallow hidden segments either."""
    out = Outcome()
    out.exhaustive = True
    armed = desc['armed']
    s, S = desc['shard'], desc['of']
    idx = 0
    for segs in c02.enum_pathpats(desc['budget']):
        idx += 1
        if idx % S != s:
            continue
        seqs = [x for x in segs if not isinstance(x, str)]
        alpha, _c = N.representatives(seqs, extra='.', cap=3)
        paths = list(N.all_names(alpha + '/', desc['plen']))
        pp = A.PathPat(False, segs, False, 1)
        cfg = PATHLIB_CONFIGS[idx % len(PATHLIB_CONFIGS)]
        out.stats['pathlib_patterns'] += 1
        lang.eval_path(pp, cfg, paths, out, armed, PROPERTY, select_path(cfg), stream='pathlib')
    out.sample({'stream': 'pathlib', 'pattern': '*/?', 'cfg': PATHLIB_CONFIGS[1]})
    return out


def run_exclude(desc):
    """Exclusion patterns (exclude= and NEGATE) behave as if DOTMATCH/DOTGLOB were set (metamorphic on wcmatch)."""
    from hypothesis import given, strategies as st, seed
    out = Outcome()
    seqs = A.st_seq(max_budget=5, max_depth=2, max_alts=2, alphabet='ab.x', kinds='?*+@', neg_exact_bias=False, posix=False)

    @seed(desc['seed'])
    @util.hyp_settings(max(10, desc['n']), shrink=False)
    @given(seqs, seqs, st.booleans(), st.integers(0, 6))
    def test(inc, exc, pathmode, how):
        if not inc or not exc:
            return
        pi, pe = A.render(inc), A.render(exc)
        alpha, _c = N.representatives([inc, exc], extra='.', cap=3)
        if pathmode:
            names = [n for n in N.all_names(alpha + '/', 4)]
            mod, base, dotflag = G, G.EXTGLOB, G.DOTGLOB
            match = lambda n, p, fl, **kw: G.globmatch(n, p, flags=fl, **kw)
        else:
            names = [n for n in N.all_names(alpha, 4)]
            mod, base, dotflag = F, F.EXTMATCH, F.DOTMATCH
            match = lambda n, p, fl, **kw: F.fnmatch(n, p, flags=fl, **kw)
        try:
            with util.watchdog(5):
                for n in names:
                    want = match(n, pi, base) and not match(n, pe, base | dotflag)
                    if how == 0:
                        got = match(n, pi, base, exclude=pe)
                        form = 'exclude='
                    elif how == 1:
                        got = match(n, [pi, '!' + pe], base | mod.NEGATE)
                        form = 'inline !'
                    elif how == 2:
                        got = match(n, [pi, '-' + pe], base | mod.NEGATE | mod.MINUSNEGATE)
                        form = 'inline -'
                    elif how == 3:
                        got = match(n, pi, base | mod.NEGATE, exclude=[pe])
                        form = 'exclude= with NEGATE'
                    elif how == 4:
                        # the exclusion first: what is forced for it (DOTMATCH) must not carry over to the inclusion after it
                        got = match(n, ['!' + pe, pi], base | mod.NEGATE)
                        form = 'inline !, exclusion first'
                    elif how == 5:
                        if '|' in pi or '|' in pe:
                            continue
                        got = match(n, '!' + pe + '|' + pi, base | mod.NEGATE | mod.SPLIT)
                        form = 'SPLIT, exclusion first'
                    else:
                        # an exclusion-only list under NEGATEALL: the implicit inclusion keeps the hidden-name rule
                        # (in name mode `/` is an ordinary character: only a leading dot hides a name)
                        want = (n[:1] != '.' and not (pathmode and '/.' in n)) and not match(n, pe, base | dotflag)
                        if pathmode and (n.endswith('/') or not n or n.startswith('/') or '//' in n):
                            continue
                        got = match(n, ['!' + pe], base | mod.NEGATE | mod.NEGATEALL)
                        form = 'NEGATEALL, exclusion only'
                    out.evaluations += 1
                    if bool(got) != bool(want):
                        out.violation({'mode': 'exclude', 'pathmode': pathmode, 'include': pi, 'exclude': pe, 'form': form, 'how': how,
                                       'name': n, 'want': bool(want), 'impl': bool(got)},
                                      size=len(pi) + len(pe) + len(n), bucket=('exclude', how, pathmode))
                        return
        except util.HarnessBudget:
            out.stats['watchdog_skipped'] += 1
            return
        if any(n[:1] == '.' or '/.' in n for n in names) and A.has_wild(exc):
            out.nontrivial(('exclude', pi, pe, pathmode, how))
        if out.evaluations % 17 == 0:
            out.sample({'stream': 'exclude', 'include': pi, 'exclude': pe, 'pathmode': pathmode, 'form': how})
    test()
    return out


HIDDEN_TREE = [
    ('f', 'a'), ('f', '.a'), ('f', 'b.a'), ('d', 'd'), ('f', 'd/a'), ('f', 'd/.a'), ('d', '.d'), ('f', '.d/a'), ('f', '.d/.a'),
    ('d', 'd/.e'), ('f', 'd/.e/a'), ('d', 'd/e'), ('f', 'd/e/.x'), ('f', '..a'), ('f', '.'.join(['', '', '']) + 'b'), ('l', '.l', 'd'),
    ('l', 'd/.lk', 'e'), ('l', 'd/e/.up', '../e') if False else ('f', 'd/e/b'),
]


def run_fs(desc):
    """glob()/iglob()/Path.glob/WcMatch on a dot-rich tree: no result may contain a hidden or ./.. segment that the
    lenient reference forbids (uses the reference verdict of the whole path; MUSTNOT => violation)."""
    from hypothesis import given, strategies as st, seed
    from ..util import WP
    out = Outcome()
    armed = desc['armed']
    seg = A.st_seq(max_budget=4, max_depth=2, max_alts=2, alphabet='ab.d', posix=False)
    pat = st.lists(st.one_of(seg, seg, seg, st.just(A.GS), st.just(A.GSL)), min_size=1, max_size=3)
    cfgs = [{}, {'globstar': True}, {'globstar': True, 'matchbase': True}, {'matchbase': True}, {'nodotdir': True},
            {'globstar': True, 'scandotdir': True}, {'scandotdir': True}, {'dot': True, 'scandotdir': True}, {'dot': True, 'globstar': True},
            {'globstar': True, 'follow': True}, {'globstarlong': True}, {'globstarlong': True, 'follow': True, 'matchbase': True},
            {'globstar': True, 'follow': True, 'matchbase': True}]
    from .. import fscommon as FC
    with FC.built_tree(HIDDEN_TREE) as (root, _removed):      # deep sandbox: `../..` in a pattern stays inside the temporary directory

        @seed(desc['seed'])
        @util.hyp_settings(max(10, desc['n']), shrink=False)
        @given(pat, st.sampled_from(cfgs), st.integers(0, 4), st.sampled_from([0, 0, 8, 9, 10, 12]))
        def test(segs, cfg, api, variant):
            judge(segs, cfg, api, variant)

        def judge(segs, cfg, api, variant):
            segs = tuple(s for s in segs if s)
            if not segs:
                return
            pp = A.PathPat(False, segs, False, 1)
            # variant: equivalent spellings (bit 8: literal dots written `\\.` - what a dot at the start of a segment means does not
            # depend on how it is written)
            text = A.render_path(pp, variant=variant)
            out.stats['fs_alternative_spellings'] += bool(variant)
            fl = lang.gl_flags(cfg) | (G.SCANDOTDIR if cfg.get('scandotdir') else 0) | (G.FOLLOW if cfg.get('follow') else 0)
            try:
                with util.watchdog(5), util.ScandirCounter(4000):
                    if api == 0:
                        res = G.glob(text, flags=fl, root_dir=root)
                    elif api == 1:
                        res = list(G.iglob(text, flags=fl, root_dir=root))
                    elif api == 3:
                        # bytes patterns with the root given as a directory descriptor (the scan yields str names there)
                        fd_ = os.open(root, os.O_RDONLY)
                        try:
                            res = [os.fsdecode(x) for x in G.glob(os.fsencode(text), flags=fl, dir_fd=fd_)]
                        finally:
                            os.close(fd_)
                    elif api == 4:
                        res = [os.fsdecode(x) for x in G.glob(os.fsencode(text), flags=fl, root_dir=os.fsencode(root))]
                    else:
                        if cfg.get('matchbase'):
                            return
                        if any((not isinstance(s_, str)) and A.is_literal(s_) and A.literal_text(s_) in ('.', '..') for s_ in segs):
                            # pathlib folds `x/.` into `x` (and relpath would fold `..`): the path object no longer shows which
                            # segment the pattern matched, so such patterns are judged through glob()/iglob() only
                            return
                        res = []
                        for p_ in WP.Path(root).glob(text, flags=fl & ~G.MATCHBASE):
                            sp = str(p_)
                            # (no os.path.relpath: it would fold a `..` matched by a pattern such as `.*.` into the name `.`)
                            if sp.startswith(root + '/') and '..' not in sp[len(root) + 1:].split('/'):
                                res.append(sp[len(root) + 1:])
            except util.HarnessBudget:
                out.stats['watchdog_skipped'] += 1
                return
            kw = dict(dot=bool(cfg.get('dot')), globstar=bool(cfg.get('globstar')), matchbase=bool(cfg.get('matchbase')),
                      globstarlong=bool(cfg.get('globstarlong')), nodotdir=bool(cfg.get('nodotdir')) or not cfg.get('scandotdir'))
            sel = select_path(cfg)
            hidden_seen = False
            for r in res:
                if api == 2:
                    continue_ok = True   # pathlib normalises ./ and trailing separators away: judged on the relpath
                if not sel(r):
                    continue
                hidden_seen = True
                v = R.path_verdict(pp, r, **kw)
                out.evaluations += 1
                if v == R.MUSTNOT and api == 2 and os.path.isdir(os.path.join(root, r)):
                    # pathlib drops the trailing separator that glob() puts on a directory matched through `x/**`
                    v = R.path_verdict(pp, r + '/', **kw)
                if v == R.MUSTNOT:
                    from .. import findings as K
                    ids = K.path_classes(pp, r, kw, True, v, text)
                    hit = sorted(ids & set(armed))
                    case = {'mode': 'fs', 'ast': A.to_json(pp), 'pattern': text, 'cfg': cfg, 'api': api, 'name': r, 'verdict': v, 'variant': variant}
                    if hit:
                        out.known_hit(hit[0], case)
                    else:
                        out.violation(case, size=len(text) * 10 + len(r), bucket=('fs', tuple(sorted(ids))))
            if api in (0, 1, 3, 4):
                # the other direction: a hidden entry whose dot is consumed by a written dot is granted - everything the reference
                # walk must return and that has a hidden component is in the result
                from .. import walker as W, trees as T, findings as K
                ref, und = W.ref_glob(T.Model(root), pp, FC.walker_opts(cfg))
                if not und:
                    got_n = {W.norm_dup(r_) for r_ in res}
                    for p_, v_ in sorted(ref.items()):
                        comps_ = [c_ for c_ in W.strip_sep(p_).split('/') if c_ not in ('', '.', '..')]
                        if v_ != R.MUST or p_ in got_n or not any(c_.startswith('.') for c_ in comps_):
                            continue
                        out.evaluations += 1
                        ids = K.path_classes(pp, W.strip_sep(p_), kw, False, R.MUST, text)
                        hit = sorted(ids & set(armed))
                        case = {'mode': 'fs-missing', 'ast': A.to_json(pp), 'pattern': text, 'cfg': cfg, 'api': api, 'name': p_, 'verdict': R.MUST,
                                'variant': variant, 'result': sorted(res)[:12]}
                        if hit:
                            out.known_hit(hit[0], case)
                        else:
                            out.violation(case, size=len(text) * 10 + len(p_), bucket=('fs-missing', tuple(sorted(ids))))
                        break
                    out.stats['fs_positive_side_judged'] += 1
            out.stats['fs_globs'] += 1
            out.stats['fs_results_with_hidden'] += hidden_seen
            if any(A.has_wild(s) for s in segs if not isinstance(s, str)) or A.GS in segs:
                out.nontrivial(('fs', text, tuple(sorted(cfg.items())), api))
        test()
        # the hidden entries of the tree named outright (its hidden links `.l` and `d/.lk` included), after every kind of globstar
        dot_l, dot_lk, dot_d, dot_a = A.lits('.l'), A.lits('.lk'), A.lits('.d'), A.lits('.a')
        fixed = [(A.GS, dot_l), (A.GS, (A.lit('.'), A.STAR)), (A.GS, dot_lk), (A.GS, dot_l, A.lits('a')), (A.GSL, (A.lit('.'), A.lit('l'), A.STAR)), (dot_l,),
                 (A.lits('d'), dot_lk), ((A.STAR,), dot_lk), (A.GS, dot_lk, (A.STAR,)), (A.GS, dot_d, (A.STAR,)), (A.GS, dot_a), (A.GS, dot_d), (A.GSL, dot_lk),
                 (A.GS, (A.lit('.'), A.ANY)), (A.lits('d'), A.GS, (A.lit('.'), A.STAR))]
        for fsegs in fixed:
            for cfg in ({'globstar': True}, {'globstar': True, 'follow': True}, {'globstarlong': True}, {'globstar': True, 'matchbase': True}, {}):
                for api in (0, 3, 4):
                    judge(fsegs, cfg, api, 0)

        # WcMatch: hidden files/directories only with HIDDEN, whatever the file pattern
        for fpat in ('*', '*|.*', '!x', '?a|.?', '**/*', '.*|*'):
            for flags in (0, WM.RECURSIVE, WM.RECURSIVE | WM.FILEPATHNAME | WM.GLOBSTAR, WM.RECURSIVE | WM.SYMLINKS):
                got = WM.WcMatch(root, fpat, flags=flags).match()
                out.evaluations += 1
                for p in got:
                    rel = os.path.relpath(p, root)
                    if any(s.startswith('.') for s in rel.split('/')):
                        out.violation({'mode': 'wcmatch', 'file_pattern': fpat, 'flags': flags, 'name': rel}, bucket=('wcmatch',))
                out.nontrivial(('wcmatch', fpat, flags))
        # the guard against the special directories does not depend on how the dots of the pattern are written: `..*` with none, both,
        # the first or the second dot escaped accepts the same names, never `.` or `..` under NODOTDIR, and glob() never returns them
        # without SCANDOTDIR
        def spellings(t):
            idx = [i for i, ch in enumerate(t) if ch == '.']
            outs = {t}
            for mask in range(1, 1 << len(idx)):
                u = list(t)
                for j, i in enumerate(idx):
                    if mask >> j & 1:
                        u[i] = '\\.'
                outs.add(''.join(u))
            return sorted(outs)
        dot_names = ['.', '..', '...', '..a', '.a', 'a', 'a.', '.a.', 'a/..', 'a/.', 'a/..a', './..', '../.', 'a/...', '.d', 'd/.e', '....', 'a..']
        for base_t in ('..*', '.*', '..?', '.?', '.*.', '*..', '..[!a]', 'a/..*', 'a/.*', '*/..*', '..*/.', '.*/..*', '.[.]*', '..*a', '*.', '.**',
                       # the same inside extended groups (alternatives that start with a written dot followed by a wildcard)
                       '@(.*)', '@(a|.*)', '@(.?)', 'a/@(.*)', '@(.*|b)', '?(.*)', '@(.[.])', '*(.*)', '@(.*)a', '@(.*).'):
            sp = spellings(base_t)
            grp = G.EXTGLOB if '(' in base_t else 0
            for fl in (G.NODOTDIR | grp, G.NODOTDIR | G.DOTGLOB | grp, G.DOTGLOB | grp, grp, G.NODOTDIR | G.GLOBSTAR | grp, G.NODOTDIR | G.EXTGLOB):
                answers = {}
                for t in sp:
                    try:
                        answers[t] = tuple(bool(G.globmatch(n, t, flags=fl)) for n in dot_names)
                    except Exception as e:
                        answers[t] = ('EXC', type(e).__name__)
                    out.evaluations += len(dot_names)
                ref_ans = answers[base_t]
                for t in sp:
                    bad = None
                    if answers[t] != ref_ans:
                        bad = 'a spelling with escaped dots is answered differently from the plain spelling'
                        k = next((i for i, (x, y) in enumerate(zip(answers[t], ref_ans)) if x != y), 0)
                    elif fl & G.NODOTDIR and answers[t][0] != 'EXC':
                        k = next((i for i, n in enumerate(dot_names) if answers[t][i] and n.split('/')[-1] in ('.', '..') and
                                  not base_t.split('/')[-1] in ('.', '..')), None)
                        if k is not None and not base_t.endswith('/.'):
                            bad = 'NODOTDIR: a pattern with a wildcard accepts the special directory'
                    if bad:
                        out.violation({'mode': 'dotspell', 'pattern': t, 'plain': base_t, 'flags': fl, 'name': dot_names[k] if isinstance(k, int) else None,
                                       'problem': bad}, bucket=('dotspell', base_t))
                        break
            for t in sp:
                try:
                    with util.ScandirCounter(4000):
                        res = G.glob(t, flags=G.DOTGLOB | grp, root_dir=root)
                except Exception as e:
                    res = ['<%s>' % type(e).__name__]
                out.evaluations += 1
                special = [r_ for r_ in res if r_.rstrip('/').split('/')[-1] in ('.', '..') and not base_t.endswith('/.')]
                if special:
                    out.violation({'mode': 'dotspell', 'pattern': t, 'plain': base_t, 'flags': G.DOTGLOB | grp, 'name': special[0], 'glob': True,
                                   'problem': 'glob() returns a special directory for a wildcard pattern although SCANDOTDIR is not set'},
                                  bucket=('dotspell-glob', base_t))
            out.nontrivial(('dotspell', base_t))
    out.sample({'stream': 'fs', 'tree': [e[1] for e in HIDDEN_TREE]})
    return out


def replay(case):
    if case.get('stream') == 'both-styles':
        return c02.replay(case)
    m = case.get('mode')
    if m == 'exclude':
        pathmode, pi, pe, how, n = case['pathmode'], case['include'], case['exclude'], case['how'], case['name']
        if pathmode:
            mod, base, dotflag = G, G.EXTGLOB, G.DOTGLOB
            match = lambda n, p, fl, **kw: G.globmatch(n, p, flags=fl, **kw)
        else:
            mod, base, dotflag = F, F.EXTMATCH, F.DOTMATCH
            match = lambda n, p, fl, **kw: F.fnmatch(n, p, flags=fl, **kw)
        want = match(n, pi, base) and not match(n, pe, base | dotflag)
        if how == 6:
            want = (n[:1] != '.' and not (pathmode and '/.' in n)) and not match(n, pe, base | dotflag)
        got = [lambda: match(n, pi, base, exclude=pe), lambda: match(n, [pi, '!' + pe], base | mod.NEGATE),
               lambda: match(n, [pi, '-' + pe], base | mod.NEGATE | mod.MINUSNEGATE), lambda: match(n, pi, base | mod.NEGATE, exclude=[pe]),
               lambda: match(n, ['!' + pe, pi], base | mod.NEGATE), lambda: match(n, '!' + pe + '|' + pi, base | mod.NEGATE | mod.SPLIT),
               lambda: match(n, ['!' + pe], base | mod.NEGATE | mod.NEGATEALL)][how]()
        return bool(got) == bool(want), {'want': bool(want), 'impl': bool(got)}
    if m == 'dotspell':
        if case.get('glob'):
            from .. import fscommon as FC
            with FC.built_tree(HIDDEN_TREE) as (root, _removed):
                res = G.glob(case['pattern'], flags=case['flags'], root_dir=root)
            return case['name'] not in res, {'result': res[:20]}
        a = bool(G.globmatch(case['name'], case['pattern'], flags=case['flags']))
        b = bool(G.globmatch(case['name'], case['plain'], flags=case['flags']))
        special = case['name'].split('/')[-1] in ('.', '..') and case['flags'] & G.NODOTDIR
        return a == b and not (a and special), {'escaped_spelling': a, 'plain_spelling': b}
    if m == 'fs-missing':
        from .. import fscommon as FC, walker as W
        with FC.built_tree(HIDDEN_TREE) as (root, _removed):
            cfg = case['cfg']
            pp = A.from_json(case['ast'])
            text = A.render_path(pp, variant=case.get('variant', 0))
            fl = lang.gl_flags(cfg) | (G.SCANDOTDIR if cfg.get('scandotdir') else 0) | (G.FOLLOW if cfg.get('follow') else 0)
            with util.ScandirCounter(4000):
                res = G.glob(text, flags=fl, root_dir=root)
            return case['name'] in {W.norm_dup(r_) for r_ in res}, {'pattern': text, 'result': res[:20]}
    if m == 'fs':
        from .. import fscommon as FC
        with FC.built_tree(HIDDEN_TREE) as (root, _removed):
            cfg = case['cfg']
            pp = A.from_json(case['ast'])
            text = A.render_path(pp, variant=case.get('variant', 0))
            fl = lang.gl_flags(cfg) | (G.SCANDOTDIR if cfg.get('scandotdir') else 0) | (G.FOLLOW if cfg.get('follow') else 0)
            with util.ScandirCounter(4000):
                res = G.glob(text, flags=fl, root_dir=root)
            return case['name'] not in res, {'pattern': text, 'result': res[:20]}
    if m == 'wcmatch':
        with util.temp_root() as root:
            util.build_tree(root, HIDDEN_TREE)
            got = [os.path.relpath(p, root) for p in WM.WcMatch(root, case['file_pattern'], flags=case['flags']).match()]
            return case['name'] not in got, {'result': got}
    return lang.replay_case(case)


def shrink(case):
    if case.get('mode') in ('exclude', 'fs', 'fs-missing', 'wcmatch', 'dotspell') or case.get('stream') == 'both-styles':
        return case
    return lang.shrink_case(case)
