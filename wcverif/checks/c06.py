"""C06 - `**` does not traverse symlinked directories unless asked; glob and WcMatch terminate on symlink cycles."""
import os

from ..runner import Outcome, HarnessError
from .. import ast as A, ref as R, trees as T, walker as W, fscommon as FC, findings as K, util
from ..util import G, WM

PROPERTY = 'C06'
RULE = ('case = (tree biased to symlinks incl. cycles, path pattern with `**`/`***` in first/middle/last position, configuration over '
        'FOLLOW, GLOBSTARLONG, MATCHBASE, DOTGLOB); the os.scandir history of glob() is recorded by the harness; oracle: (a) a listed '
        'directory is a violation only if EVERY alignment of its path with the pattern puts a symlink component on a `**` that does '
        'not follow links (literal segments through links are allowed), (b) symlinks met by a final `**` are in the result, (c) on '
        'trees with cycles (generated only when links are not followed) the number of listings stays below a bound proportional to '
        'tree size x segments, (d) globmatch(REALPATH) rejects a candidate that can only be aligned with a symlink traversed by such '
        'a `**`; WcMatch without SYMLINKS never lists below a symlinked directory and terminates; non-trivial = the tree has a '
        'symlinked directory below the root and the pattern has a globstar; evaluations = listings + candidates judged')
ASSUMPTIONS = ['under FOLLOW / `***` cyclic links are removed from the tree (the property makes no termination claim there)',
               'termination is a bound on directory listings, not a stopwatch',
               'a `**` adjacent to a `***` under GLOBSTARLONG is not judged (walker and regex disagree about which decides; see C04)']

CFG_KEYS = ['globstar', 'globstarlong', 'follow', 'dot', 'matchbase', 'globstar', 'globstar']

LINKY = [
    [('d', 'd'), ('f', 'd/a'), ('d', 'd/e'), ('f', 'd/e/a'), ('l', 'ld', 'd'), ('l', 'd/up', '..'), ('l', 'lf', 'd/a'), ('l', 'dang', 'nowhere')],
    [('d', 'a'), ('d', 'a/b'), ('f', 'a/b/c'), ('l', 'a/b/loop', '../..'), ('l', 'a/self', '.'), ('d', '.h'), ('f', '.h/x'), ('l', 'lh', '.h')],
    [('d', 'x'), ('d', 'y'), ('l', 'x/toy', '../y'), ('l', 'y/tox', '../x'), ('f', 'x/f'), ('f', 'y/g')],
    [('d', 'p'), ('d', 'p/q'), ('d', 'p/q/r'), ('f', 'p/q/r/f'), ('l', 'p/q/r/top', '../../..'), ('l', 'p/lq', 'q'), ('l', 'p/.hl', 'q')],
]


def shards(tier, seed, scale=1.0):
    n = 500 if tier == 'quick' else 8000
    out = []
    for s in range(16):
        out.append({'name': 'sym-%d' % s, 'kind': 'sym', 'seed': seed * 1000 + s, 'n': max(10, int(n * scale))})
    for s in range(8):
        out.append({'name': 'two-%d' % s, 'kind': 'two', 'seed': seed * 1000 + 200 + s, 'n': max(10, int(n * scale / 2))})
    for s in range(4):
        out.append({'name': 'base-%d' % s, 'kind': 'base', 'seed': seed * 1000 + 300 + s, 'n': max(10, int(n * scale / 2))})
    out.append({'name': 'wcmatch', 'kind': 'wcmatch', 'seed': seed})
    return out


def run_shard(desc):
    if desc['kind'] == 'sym':
        return run_sym(desc)
    if desc['kind'] == 'two':
        return run_two(desc)
    if desc['kind'] == 'base':
        return run_base(desc)
    return run_wcmatch(desc)


def seg_list(pp, cfg):
    """[('lit', text) | ('magic',) | ('gs', follows)] with the implicit MATCHBASE prefix where it applies."""
    o = FC.walker_opts(cfg)
    segs = []
    for kind in W.norm_segments(pp, o):
        if kind[0] == 'gs':
            follows = (o.follow and not o.globstarlong) or kind[1]
            segs.append(('gs', follows))
        elif A.is_literal(kind[1]):
            segs.append(('lit', A.literal_text(kind[1])))
        else:
            segs.append(('magic',))
    if cfg.get('matchbase') and len(pp.segs) == 1 and not pp.trail:
        if segs[0][0] != 'gs':
            segs = [('gs', bool(o.follow))] + segs      # the implicit prefix honours FOLLOW (as `***` under GLOBSTARLONG)
    return segs


def forced_through_link(comps, linkflags, segs, full, icase=False):
    """True iff every alignment of the path components with the segments assigns some symlink component (for full
    alignments: other than the last component) to a globstar that does not follow links.

    full=False: the components are a prefix of a potential match (a directory being listed).
    """
    k, n = len(comps), len(segs)
    if not _align(comps, [False] * k, segs, full, icase):
        return False          # the path cannot be aligned with the pattern at all: not this property's business
    return not _align(comps, linkflags, segs, full, icase)


def _align(comps, linkflags, segs, full, icase):
    k, n = len(comps), len(segs)
    memo = {}

    def ok(i, j):
        """Can components[i:] be aligned with segs[j:] without a forbidden traversal?"""
        key = (i, j)
        if key in memo:
            return memo[key]
        if i == k:
            r = True if not full else all(s[0] == 'gs' for s in segs[j:])
        elif j == n:
            r = False
        else:
            s = segs[j]
            if s[0] == 'gs':
                r = ok(i, j + 1)          # zero components
                if not r:
                    bad = linkflags[i] and not s[1] and not (full and i == k - 1)
                    if not bad:
                        r = ok(i + 1, j)  # the globstar takes this component and may take more
                    # a listed directory that is itself a symlink has been traversed: for prefixes every taken
                    # component counts (no exemption for the last one)
            elif s[0] == 'lit':
                same = comps[i].lower() == s[1].lower() if icase else comps[i] == s[1]
                r = same and ok(i + 1, j + 1)
            else:
                r = ok(i + 1, j + 1)
        memo[key] = r
        return r
    return ok(0, 0)


def ambiguous_link_alignment(comps, linkflags, segs, icase=False):
    """True iff the full path can be aligned with the pattern both without and with a symlink component (other than the
    last) taken by a globstar that does not follow links.  (Class of finding K29: the REALPATH check of globmatch looks at
    the one alignment the regex engine happens to find.)"""
    k, n = len(comps), len(segs)
    if not _align(comps, linkflags, segs, True, icase):
        return False
    memo = {}

    def dirty(i, j, d):
        key = (i, j, d)
        if key in memo:
            return memo[key]
        if i == k:
            r = d and all(s[0] == 'gs' for s in segs[j:])
        elif j == n:
            r = False
        else:
            s = segs[j]
            if s[0] == 'gs':
                bad = linkflags[i] and not s[1] and i != k - 1
                r = dirty(i, j + 1, d) or dirty(i + 1, j, d or bad)
            elif s[0] == 'lit':
                same = comps[i].lower() == s[1].lower() if icase else comps[i] == s[1]
                r = same and dirty(i + 1, j + 1, d)
            else:
                r = dirty(i + 1, j + 1, d)
        memo[key] = r
        return r
    return dirty(0, 0, False)


def link_flags(root, comps):
    out = []
    cur = root
    for c in comps:
        cur = os.path.join(cur, c)
        out.append(os.path.islink(cur))
    return out


def check_case(root, spec, pp, cfg, out, armed):
    text = A.render_path(pp)
    fl = FC.cfg_flags(cfg)
    zone = None
    prev = None
    for s in pp.segs:
        if isinstance(s, str):
            if cfg.get('globstarlong') and prev is not None and prev != s:
                zone = 'mixed globstar kinds'
            prev = s
        else:
            prev = None
    if zone:
        out.either += 1
        return
    k17 = cfg.get('matchbase') and all(isinstance(s, str) for s in pp.segs) and not pp.trail
    case = {'tree': [list(e) for e in spec], 'ast': A.to_json(pp), 'pattern': text, 'cfg': cfg}
    nent = len(spec) + 2
    bound = 40 * nent * (len(pp.segs) + 2)
    try:
        with util.watchdog(30), util.ScandirCounter(max(bound * 4, 4000), record=True) as sc:
            res = G.glob(text, flags=fl, root_dir=root)
    except util.HarnessBudget as e:
        follows = FC.follows_links(cfg)
        if follows or 'watchdog' in str(e):
            # a stopwatch never decides; only the listing ceiling does
            out.stats['budget_skipped_following'] += 1
            return
        out.violation(dict(case, problem='glob did not terminate within the listing ceiling on a tree whose links are not followed'),
                      bucket=('termination',))
        return
    segs = seg_list(pp, cfg)
    icase = bool(cfg.get('icase'))
    rroot = os.path.realpath(root)
    # (c) listing bound on trees with cycles when links are not followed
    out.evaluations += 1
    if not FC.follows_links(cfg) and sc.calls > bound:
        out.violation(dict(case, problem='too many directory listings', listings=sc.calls, bound=bound), bucket=('bound',))
        return
    # (a) never list through a symlink at a `**` position
    for listed in sc.listed:
        if not listed.startswith(root + '/'):
            continue
        rel = listed[len(root) + 1:]          # not normalised: `./x` keeps its `.` component
        comps = [c for c in rel.split('/') if c != '']
        if not comps or '..' in comps:
            continue            # paths through `..` are aligned by literal segments only; nothing to judge
        lf = link_flags(root, comps)
        out.evaluations += 1
        if any(lf) and forced_through_link(comps, lf, segs, full=False, icase=icase):
            c = dict(case, problem='directory listed through a symlink at a `**` position', listed=rel)
            if k17 and 'K17' in armed:
                out.known_hit('K17', c)
            else:
                out.violation(c, size=len(text) * 10 + len(rel), bucket=('listed', tuple(sorted(cfg))))
            return
    # (b) symlinks met by a final `**` are themselves results
    if len(segs) == 1 and segs[0][0] == 'gs' and not cfg.get('matchbase'):
        want = set()
        model = T.Model(root)
        for p, is_dir, is_link in model.all_entries(follow=False, max_depth=6):
            if is_link and all((cfg.get('dot') or not c.startswith('.')) for c in p.split('/')):
                if pp.trail and not is_dir:
                    continue
                want.add(p)
        got = {W.strip_sep(r) for r in res}
        out.evaluations += len(want)
        miss = sorted(want - got)
        if miss:
            out.violation(dict(case, problem='a symlink met by `**` is missing from the result', name=miss[0]), bucket=('missing-link',))
            return
    # (d) globmatch(REALPATH) applies the same rule to a given path
    model = T.Model(root)
    try:
        cands = [p for p, _d, _l in model.all_entries(follow=True, max_depth=4)]
    except util.HarnessBudget:
        # the harness's own enumeration of candidates through cyclic links is too large: clause (d) is skipped for this tree
        out.stats['candidate_enumeration_skipped'] += 1
        return res
    fd = os.open(root, os.O_RDONLY)
    pfd = os.open(os.path.dirname(root), os.O_RDONLY)
    answers = {}
    try:
      for ci, c in enumerate(cands):
        comps = c.split('/')
        if '..' in comps:
            continue
        lf = link_flags(root, comps)
        if not any(lf[:-1]):
            continue
        try:
            with util.watchdog(5):
                # the same rule whichever way the root is given: root_dir, dir_fd, working directory
                how = ci % 4
                # ... and whether or not an exclusion that excludes nothing is supplied (keyword or inline)
                xk = [{}, {'exclude': 'zz_nothing*'}, {}, {'exclude': ['zz_nothing', 'zz_other/**']}][(ci // 3) % 4]
                pats = [text, '!zz_nothing*'] if (ci // 3) % 4 == 2 else text
                xf = G.NEGATE if (ci // 3) % 4 == 2 else 0
                if how == 0:
                    m = G.globmatch(c, pats, flags=fl | G.REALPATH | xf, root_dir=root, **xk)
                elif how == 1:
                    m = G.globmatch(c, pats, flags=fl | G.REALPATH | xf, dir_fd=fd, **xk)
                elif how == 3:
                    # a descriptor of the parent directory plus a relative root_dir
                    m = G.globmatch(c, pats, flags=fl | G.REALPATH | xf, dir_fd=pfd, root_dir=os.path.basename(root), **xk)
                else:
                    with util.chdir(root):
                        m = G.globmatch(c, pats, flags=fl | G.REALPATH | xf, **xk)
        except util.HarnessBudget:
            continue
        out.evaluations += 1
        answers[c] = bool(m)
        if ci % 2 == 0 and not cfg.get('follow') and '\n' not in c:
            # the same candidate named absolutely against `/**/<last component>`: the globstar starts at the file system root and
            # the candidate reaches its last component through a symlinked directory
            try:
                with util.watchdog(5):
                    ma = G.globmatch(os.path.join(root, c), '/**/' + G.escape(comps[-1]), flags=(fl & ~G.MATCHBASE) | G.GLOBSTAR | G.REALPATH | G.DOTGLOB)
            except util.HarnessBudget:
                ma = False
            out.evaluations += 1
            if ma:
                out.violation(dict(case, problem='globmatch(REALPATH) accepted an absolute path below a symlink traversed by the `**` of `/**/name`',
                                   name=os.path.join(root, c), pattern_used='/**/' + G.escape(comps[-1])), size=len(c), bucket=('realpath-abs',))
                return res
        if ci % 2 == 1 and not cfg.get('follow'):
            # an exclusion-only list under NEGATEALL: the inclusion the library supplies is a `**`, which obeys the same rule
            try:
                with util.watchdog(5):
                    mn = G.globmatch(c, ['!zz_nothing*'], flags=G.REALPATH | G.NEGATE | G.NEGATEALL | G.DOTGLOB | (fl & (G.GLOBSTARLONG | G.GLOBSTAR)),
                                     root_dir=root)
            except util.HarnessBudget:
                mn = False
            out.evaluations += 1
            if mn:
                out.violation(dict(case, problem='the implicit `**` of NEGATEALL accepted a path below a symlinked directory under REALPATH', name=c,
                                   pattern_used=['!zz_nothing*']), size=len(c), bucket=('realpath-negateall',))
                return res
        if m and forced_through_link(comps, lf, segs, full=True, icase=icase):
            cs = dict(case, problem='globmatch(REALPATH) accepted a path below a symlink traversed by `**`', name=c)
            cs['root_given_as'] = ['root_dir', 'dir_fd', 'cwd', 'dir_fd of the parent + root_dir'][how]
            cs['exclusion_form'] = ['none', 'exclude=str', 'inline', 'exclude=list'][(ci // 3) % 4]
            if k17 and 'K17' in armed:
                out.known_hit('K17', cs)
            else:
                out.violation(cs, size=len(text) * 10 + len(c), bucket=('realpath', tuple(sorted(cfg))))
            return res
      # the filtering entry points judge a list of paths one by one: globfilter / compile().filter keep exactly the candidates that
      # globmatch accepted above
      if answers:
        lc = list(answers)
        want_f = [c_ for c_ in lc if answers[c_]]
        try:
            with util.watchdog(10):
                got_f = G.globfilter(lc, text, flags=fl | G.REALPATH, root_dir=root)
                cm_ = G.compile(text, flags=fl | G.REALPATH)
                got_c = cm_.filter(lc, root_dir=root)
                # ... and a matcher that went through pickle / deepcopy still knows which of its globstars may pass through links
                import pickle as _pk, copy as _cp
                got_p = _pk.loads(_pk.dumps(cm_)).filter(lc, root_dir=root)
                got_d = _cp.deepcopy(cm_).filter(lc, root_dir=root)
        except util.HarnessBudget:
            got_f = got_c = got_p = got_d = want_f
        out.evaluations += 4
        for label, g_ in (('globfilter', got_f), ('compile().filter', got_c), ('pickled compile().filter', got_p), ('deep-copied compile().filter', got_d)):
            if list(g_) != want_f:
                d_ = sorted(set(g_) ^ set(want_f))[0]
                out.violation(dict(case, problem='%s(REALPATH) keeps other paths through symlinked directories than globmatch accepts one by one' % label,
                                   name=d_, kept=d_ in g_), size=len(text) * 10 + len(d_), bucket=('realpath-filter', label))
                return res
    finally:
        os.close(fd)
        os.close(pfd)
    return res


def run_sym(desc):
    from hypothesis import given, strategies as st, seed
    out = Outcome()
    armed = desc['armed']
    trees = st.one_of(st.sampled_from(LINKY), st.sampled_from([T.CATALOGUE[2], T.CATALOGUE[3], T.CATALOGUE[9]]), T.st_tree(True))

    def pats(spec):
        names = sorted({os.path.basename(e[1]) for e in spec} | {'.', 'zz'})
        seg = FC.st_segment(only_names=names)
        gs = st.sampled_from([A.GS, A.GS, A.GSL])
        body = st.lists(st.one_of(seg, seg, gs), min_size=0, max_size=3)
        return st.tuples(st.just(spec), st.tuples(body, gs, body, st.booleans()).map(
            lambda t: A.PathPat(False, tuple(x for x in (tuple(t[0]) + (t[1],) + tuple(t[2]))[:4] if x), t[3], 1)))

    @seed(desc['seed'])
    @util.hyp_settings(desc['n'], shrink=False)
    @given(trees.flatmap(pats), FC.st_cfg(CFG_KEYS))
    def test(sp, cfg):
        spec, pp = sp
        if not any(isinstance(s, str) for s in pp.segs):
            return
        follow = FC.follows_links(cfg)
        with FC.built_tree(spec, follow_safe=follow) as (root, removed):
            out.stats['cases'] += 1
            out.stats['links_removed_for_follow'] += removed
            has_dirlink = any(os.path.islink(os.path.join(b, n)) and os.path.isdir(os.path.join(b, n))
                              for b, ds, fs in os.walk(root) for n in ds + fs)
            out.stats['trees_with_dir_symlink'] += has_dirlink
            out.stats['follows_links'] += follow
            res = check_case(root, spec, pp, cfg, out, armed)
            if has_dirlink and (cfg.get('globstar') or cfg.get('globstarlong')):
                out.nontrivial((tuple(map(tuple, spec)), A.render_path(pp), tuple(sorted(cfg))))
            if out.stats['cases'] % 43 == 1:
                out.sample({'tree': [e[1] + ('->' + e[2] if e[0] == 'l' else '/' if e[0] == 'd' else '') for e in spec],
                            'pattern': A.render_path(pp), 'cfg': cfg, 'results': len(res) if res else 0})
    test()
    return out


def run_two(desc):
    """Two globstars of possibly different kinds in one pattern, separated by ordinary segments (`**/d/***/f`): the rule of each
    one applies to its own span only, whatever search ran in between."""
    from hypothesis import given, strategies as st, seed
    out = Outcome()
    armed = desc['armed']
    trees = st.sampled_from(LINKY + [T.CATALOGUE[13], T.CATALOGUE[13], T.CATALOGUE[9], T.CATALOGUE[2], T.CATALOGUE[6]])

    def pats(spec):
        names = sorted({os.path.basename(e[1]) for e in spec})
        lit = st.sampled_from(names).map(A.lits)
        mid = st.one_of(lit, lit, st.just((A.STAR,)), st.just((A.ANY, A.STAR)))
        gs = st.sampled_from([A.GS, A.GSL])
        return st.tuples(st.just(spec), st.tuples(gs, mid, gs, st.one_of(st.none(), mid), st.booleans()).map(
            lambda t: A.PathPat(False, tuple(x for x in (t[0], t[1], t[2], t[3]) if x is not None), t[4] and False, 1)))

    @seed(desc['seed'])
    @util.hyp_settings(desc['n'], shrink=False)
    @given(trees.flatmap(pats), st.lists(st.sampled_from(['dot', 'follow', 'globstar']), max_size=2, unique=True))
    def test(sp, extra):
        spec, pp = sp
        cfg = {k: True for k in extra}
        cfg['globstarlong'] = True
        with FC.built_tree(spec, follow_safe=FC.follows_links(cfg)) as (root, removed):
            out.stats['two_cases'] += 1
            res = check_case(root, spec, pp, cfg, out, armed)
            out.nontrivial((tuple(map(tuple, spec)), A.render_path(pp), tuple(sorted(cfg))))
            if out.stats['two_cases'] % 43 == 1:
                out.sample({'tree': [e[1] + ('->' + e[2] if e[0] == 'l' else '/' if e[0] == 'd' else '') for e in spec],
                            'pattern': A.render_path(pp), 'cfg': cfg, 'results': len(res) if res else 0, 'stream': 'two'})
    test()
    return out


def run_base(desc):
    """MATCHBASE with a pattern that has no separator and no written globstar: the implicit `**/` prefix obeys the same rule
    (links traversed only under FOLLOW), whether or not GLOBSTAR / GLOBSTARLONG is given."""
    from hypothesis import given, strategies as st, seed
    out = Outcome()
    armed = desc['armed']
    trees = st.one_of(st.sampled_from(LINKY), st.sampled_from([T.CATALOGUE[2], T.CATALOGUE[3], T.CATALOGUE[9]]), T.st_tree(True))

    def pats(spec):
        names = sorted({os.path.basename(e[1]) for e in spec} | {'zz'})
        seg = st.one_of(FC.st_segment(only_names=names), st.sampled_from(names).map(A.lits), st.just((A.STAR,)))
        return st.tuples(st.just(spec), seg.map(lambda sg: A.PathPat(False, (sg,), False, 1)))

    @seed(desc['seed'])
    @util.hyp_settings(desc['n'], shrink=False)
    @given(trees.flatmap(pats), FC.st_cfg(['globstar', 'globstarlong', 'follow', 'dot']))
    def test(sp, cfg):
        spec, pp = sp
        if any(isinstance(s, str) for s in pp.segs):
            return
        cfg = dict(cfg, matchbase=True)
        follow = FC.follows_links(cfg)
        with FC.built_tree(spec, follow_safe=follow) as (root, removed):
            out.stats['base_cases'] += 1
            has_dirlink = any(os.path.islink(os.path.join(b, n)) and os.path.isdir(os.path.join(b, n))
                              for b, ds, fs in os.walk(root) for n in ds + fs)
            res = check_case(root, spec, pp, cfg, out, armed)
            if has_dirlink:
                out.nontrivial((tuple(map(tuple, spec)), A.render_path(pp), tuple(sorted(cfg))))
            if out.stats['base_cases'] % 43 == 1:
                out.sample({'tree': [e[1] + ('->' + e[2] if e[0] == 'l' else '/' if e[0] == 'd' else '') for e in spec],
                            'pattern': A.render_path(pp), 'cfg': cfg, 'results': len(res) if res else 0, 'stream': 'base'})
    test()
    return out


def run_wcmatch(desc):
    """WcMatch without SYMLINKS never descends into a symlinked directory (so it terminates on cycles); with SYMLINKS it
    does descend (checked on cycle-free trees)."""
    out = Outcome()
    for ti, spec in enumerate(LINKY + [T.CATALOGUE[2], T.CATALOGUE[3], T.CATALOGUE[9]]):
        for flags in (WM.RECURSIVE, WM.RECURSIVE | WM.HIDDEN, WM.RECURSIVE | WM.FILEPATHNAME | WM.GLOBSTAR | WM.HIDDEN):
            with FC.built_tree(spec) as (root, _r):
                try:
                    with util.ScandirCounter(3000, record=True) as sc:
                        got = WM.WcMatch(root, '*|**/*', flags=flags).match()
                except util.HarnessBudget:
                    out.violation({'mode': 'wcmatch', 'tree': [list(e) for e in spec], 'flags': flags,
                                   'problem': 'WcMatch without SYMLINKS did not terminate within the listing ceiling'}, bucket=('wm-term',))
                    continue
                out.evaluations += 1
                out.nontrivial(('wcmatch', ti, flags))
                for listed in sc.listed:
                    rel = os.path.relpath(listed, root)
                    if rel == '.':
                        continue
                    if any(link_flags(root, rel.split('/'))):
                        out.violation({'mode': 'wcmatch', 'tree': [list(e) for e in spec], 'flags': flags, 'listed': rel,
                                       'problem': 'WcMatch without SYMLINKS listed a directory through a symlink'}, bucket=('wm-list',))
                        break
                for p in got:
                    rel = os.path.relpath(p, root)
                    if any(link_flags(root, rel.split('/'))[:-1]):
                        out.violation({'mode': 'wcmatch', 'tree': [list(e) for e in spec], 'flags': flags, 'name': rel,
                                       'problem': 'WcMatch without SYMLINKS returned a file below a symlinked directory'}, bucket=('wm-res',))
                        break
            with FC.built_tree(spec, follow_safe=True) as (root, _r):
                with util.ScandirCounter(3000):
                    got = [os.path.relpath(p, root) for p in WM.WcMatch(root, '*', flags=flags | WM.SYMLINKS | WM.HIDDEN).match()]
                want = set()
                for b, ds, fs in os.walk(root, followlinks=True):
                    for f in fs:
                        want.add(os.path.relpath(os.path.join(b, f), root))
                    for d_ in list(ds):
                        if not os.path.isdir(os.path.join(b, d_)):
                            ds.remove(d_)
                out.evaluations += 1
                if flags & WM.HIDDEN and not flags & WM.FILEPATHNAME and set(got) != want:
                    out.violation({'mode': 'wcmatch', 'tree': [list(e) for e in spec], 'flags': flags | WM.SYMLINKS, 'problem':
                                   'WcMatch with SYMLINKS|HIDDEN differs from os.walk(followlinks=True)', 'diff': sorted(set(got) ^ want)[:6]},
                                  bucket=('wm-follow',))
    out.sample({'mode': 'wcmatch', 'trees': len(LINKY) + 3})
    return out


def replay(case):
    util.clear_caches()
    if case.get('mode') == 'wcmatch':
        r = run_wcmatch({})
        return (not r.violations), [v[2].get('problem') for v in r.violations]
    spec = [tuple(e) for e in case['tree']]
    pp = A.from_json(case['ast'])
    cfg = case['cfg']
    o = Outcome()
    with FC.built_tree(spec, follow_safe=FC.follows_links(cfg)) as (root, _r):
        check_case(root, spec, pp, cfg, o, [])
    return (not o.violations), [dict(problem=v[2].get('problem'), listed=v[2].get('listed'), name=v[2].get('name')) for v in o.violations]
