"""C13 - multi-pattern glob is the de-duplicated union minus exclusions."""
import os

from ..runner import Outcome, HarnessError
from .. import ast as A, ref as R, trees as T, walker as W, fscommon as FC, util
from ..util import G, WP

PROPERTY = 'C13'
RULE = ('case = (tree incl. mixed-case names, list of 1-4 path patterns (overlapping, identical, differing only in case, also joined by '
        'BRACE/SPLIT), 0-2 exclusions given by exclude= or inline NEGATE, configuration over NOUNIQUE, IGNORECASE/CASE, NEGATEALL, '
        'NODIR, SCANDOTDIR, GLOBSTAR, DOTGLOB, pathlib mode); oracle (metamorphic on wcmatch): with R_i = glob(p_i) and X(path) = some '
        'exclusion pattern matches the path (with a trailing separator if it is a directory, DOTGLOB forced), the default result is '
        'as a set the union of the R_i minus X and contains no spelling twice; with NOUNIQUE it is the concatenation of the R_i '
        'filtered by X, in order; Path.glob never yields one file twice unless NOUNIQUE; non-trivial = at least two patterns whose '
        'individual results intersect; evaluations = list calls compared')
ASSUMPTIONS = ['single-pattern glob() results are the building blocks (judged by C05)', 'the file system is case-sensitive: Abc and abc are different paths']

CFG_KEYS = ['nounique', 'icase', 'case', 'nodir', 'scandotdir', 'globstar', 'dot', 'mark', 'negateall']


def shards(tier, seed, scale=1.0):
    n = 400 if tier == 'quick' else 6000
    return [{'name': 'union-%d' % s, 'kind': 'union', 'seed': seed * 1000 + s, 'n': max(10, int(n * scale))} for s in range(16)] + \
        [{'name': 'literal-%d' % t, 'kind': 'literal', 'tree': t} for t in (0, 2, 12, 15)]


def run_shard(desc):
    if desc['kind'] == 'literal':
        return run_literal(desc)
    return run_union(desc)


def run_literal(desc):
    """Lists of literal patterns that name entries of one catalogue tree - with and without a trailing separator, in every order of
    2 and of 3, delivered as a list, through BRACE and through SPLIT: the union of the single results (the first pattern of a list
    must not decide how the directory is listed for the ones after it)."""
    import itertools
    out = Outcome()
    out.exhaustive = True
    armed = desc['armed']
    spec = T.CATALOGUE[desc['tree']]
    with FC.built_tree(spec) as (root, _r):
        model = T.Model(root)
        ents = [(p, d) for p, d, _l in model.all_entries(follow=False, max_depth=3)][:10]
        pats = []
        for p, is_dir in ents:
            segs = tuple(A.lits(x) for x in p.split('/'))
            pats.append(A.PathPat(False, segs, False, 1))
            if is_dir:
                pats.append(A.PathPat(False, segs, True, 1))
        pats.append(A.PathPat(False, (A.lits('zz_missing'),), False, 1))
        n = 0
        for k in (2, 3):
            perms = list(itertools.permutations(pats[:9] if k == 3 else pats, k))
            step = max(1, len(perms) // 400)
            for combo in perms[::step]:
                n += 1
                for cfg in ({}, {'mark': True}, {'nounique': True}, {'icase': True}):
                    r = check_case(root, spec, list(combo), [], dict(cfg), 'exclude', ('list', 'brace', 'split', 'pathlib')[n % 4], out, armed)
                if r is not None:
                    out.nontrivial(('literal', desc['tree'], tuple(A.render_path(c) for c in combo)))
        # single literal patterns (files, directories, with and without trailing separator) against exclusions that only match the
        # directory spelling (`*/`, `<name>/`), the plain name, or everything - through every way of delivering an exclusion
        star_dir = A.PathPat(False, ((A.STAR,),), True, 1)
        star = A.PathPat(False, ((A.STAR,),), False, 1)
        m = 0
        for pp in pats[:14]:
            own_dir = pp._replace(trail=True)
            own = pp._replace(trail=False)
            for excl in ([star_dir], [own_dir], [own], [star], [star_dir, own]):
                if len(pp.segs) > 1 and excl[0] in (star_dir, star):
                    continue
                for delivery in ('exclude', 'inline', 'inline-first'):
                    for cfg in ({}, {'mark': True}, {'nodir': True}):
                        m += 1
                        check_case(root, spec, [pp], list(excl), dict(cfg), delivery, ('list', 'pathlib')[m % 2] if not cfg.get('mark') else 'list', out, armed)
            out.nontrivial(('literal-excl', desc['tree'], A.render_path(pp)))
    out.sample({'stream': 'literal lists', 'tree_index': desc['tree'], 'lists': n, 'single_literals_with_exclusions': m})
    return out


def check_case(root, spec, pps, excl, cfg, delivery, how, out, armed):
    texts = [A.render_path(pp) for pp in pps]
    etexts = [A.render_path(e) for e in excl]
    fl = FC.cfg_flags(cfg)
    case = {'tree': [list(e) for e in spec], 'asts': [A.to_json(pp) for pp in pps], 'excl_asts': [A.to_json(e) for e in excl],
            'patterns': texts, 'exclude': etexts, 'cfg': cfg, 'delivery': delivery, 'how': how}
    try:
        with util.watchdog(15), util.ScandirCounter(10000):
            singles = [G.glob(t, flags=fl, root_dir=root) for t in texts]

            def excluded(path):
                full = os.path.join(root, path)
                cand = path + '/' if os.path.isdir(full) and not path.endswith('/') else path
                return any(G.globmatch(cand, e, flags=(fl | G.DOTGLOB) & ~(G.NODIR | G.MARK | G.NOUNIQUE | G.SCANDOTDIR)) for e in etexts)
            # in half of the cases an absolute pattern that matches nothing stands first: it adds nothing to the union and must
            # not change what the patterns after it return
            ctexts = ([root + '/zz_no_such_entry'] + texts) if sum(map(len, texts)) % 2 and how != 'pathlib' else list(texts)
            case['abs_first'] = len(ctexts) != len(texts)
            if how == 'brace' and len(texts) > 1 and not any(c in t for t in texts for c in ',{}'):
                call_pats = '{' + ','.join(ctexts) + '}'
                cfl = fl | G.BRACE
            elif how == 'split' and len(texts) > 1 and not any('|' in t for t in texts):
                call_pats = '|'.join(ctexts)
                cfl = fl | G.SPLIT
            else:
                call_pats = list(ctexts)
                cfl = fl
            kw = {}
            if etexts:
                if delivery == 'inline':
                    call_pats = ([call_pats] if isinstance(call_pats, str) else call_pats) + ['!' + e for e in etexts]
                    cfl |= G.NEGATE
                elif delivery == 'empty-exclude':
                    # an exclude= argument, even an empty one, switches inline negation off: the `!` texts are ordinary patterns
                    call_pats = ([call_pats] if isinstance(call_pats, str) else call_pats) + ['!' + e for e in etexts]
                    cfl |= G.NEGATE
                    kw['exclude'] = [] if len(etexts) % 2 else ()
                    singles = singles + [G.glob('!' + e, flags=fl, root_dir=root) for e in etexts]
                    etexts = []
                    case['exclude'] = []
                elif delivery == 'inline-first':
                    # the exclusions stand before the first inclusion: the position of an exclusion in the list means nothing
                    call_pats = ['!' + e for e in etexts] + ([call_pats] if isinstance(call_pats, str) else call_pats)
                    cfl |= G.NEGATE
                else:
                    kw['exclude'] = etexts
            if how == 'pathlib':
                pres = list(WP.Path(root).glob(call_pats, flags=cfl & ~(G.MARK), **kw))
                res = None
            else:
                res = G.glob(call_pats, flags=cfl, root_dir=root, **kw)
    except util.HarnessBudget:
        out.stats['budget_skipped'] += 1
        return None
    out.evaluations += 1
    if how == 'pathlib':
        if not cfg.get('nounique') and len(pres) != len(set(pres)):
            dup = sorted(str(p) for p in pres if pres.count(p) > 1)[0]
            out.violation(dict(case, problem='Path.glob yields one file twice', name=os.path.relpath(dup, root)), bucket=('pathlib-dup',))
        want = set()
        for r in singles:
            for p in r:
                if not excluded(p):
                    want.add(WP.Path(root) / p)
        if set(pres) != want:
            d = sorted(str(p) for p in set(pres) ^ want)[0]
            out.violation(dict(case, problem='Path.glob differs from the union of single-pattern glob() results', name=os.path.relpath(d, root)),
                          bucket=('pathlib-union',))
        return singles
    if cfg.get('nounique'):
        want = [p for r in singles for p in r if not excluded(p)]
        if res != want:
            out.violation(dict(case, problem='NOUNIQUE result is not the concatenation of the single results', got=res[:12], want=want[:12]),
                          size=sum(map(len, texts)) * 10, bucket=('nounique',))
        return singles
    want = {p for r in singles for p in r if not excluded(p)}
    if len(res) != len(set(res)):
        dup = sorted(p for p in res if res.count(p) > 1)[0]
        c = dict(case, problem='a path is returned twice', name=dup, got=res[:12])
        if 'K14' in armed and cfg.get('icase') and not cfg.get('case') and dup != dup.lower():
            out.known_hit('K14', c)
        else:
            out.violation(c, size=sum(map(len, texts)) * 10, bucket=('dup', bool(cfg.get('icase'))))
        return singles
    if set(res) != want:
        d = sorted(set(res) ^ want)[0]
        out.violation(dict(case, problem='result is not the union of the single results minus exclusions', name=d, in_result=d in res,
                           got=sorted(res)[:12], want=sorted(want)[:12]), size=sum(map(len, texts)) * 10, bucket=('union', d in res))
    return singles


def run_union(desc):
    from hypothesis import given, strategies as st, seed
    out = Outcome()
    armed = desc['armed']
    cat = [T.CATALOGUE[4], T.CATALOGUE[4], T.CATALOGUE[0], T.CATALOGUE[2], T.CATALOGUE[5], T.CATALOGUE[10], T.CATALOGUE[6]]

    @seed(desc['seed'])
    @util.hyp_settings(desc['n'], shrink=False)
    @given(st.one_of(st.sampled_from(cat), T.st_tree(False)), st.data(), FC.st_cfg(CFG_KEYS), st.sampled_from(['exclude', 'inline', 'inline-first', 'empty-exclude']),
           st.sampled_from(['list', 'list', 'brace', 'split', 'pathlib']))
    def test(spec, data, cfg, delivery, how):
        names = sorted({os.path.basename(e[1]) for e in spec} | {'.', 'zz'})
        names += [n.swapcase() for n in names if n.isalpha()][:4]
        pat = FC.st_pathpat(3, globstarlong=False, trail=False, names=names)
        pps = data.draw(st.lists(pat, min_size=1, max_size=4))
        if data.draw(st.booleans()) and pps:
            pps.append(pps[0])         # an identical pattern
        excl = data.draw(st.lists(FC.st_pathpat(2, globstarlong=False, trail=False, names=names), min_size=0, max_size=2))
        if how == 'pathlib':
            cfg = {k: v for k, v in cfg.items() if k not in ('mark',)}
        with FC.built_tree(spec) as (root, _removed):
            out.stats['cases'] += 1
            out.stats['how_' + how] += 1
            out.stats['with_exclusions'] += bool(excl)
            singles = check_case(root, spec, pps, excl, cfg, delivery, how, out, armed)
            if singles is None:
                return
            inter = False
            for i in range(len(singles)):
                for j in range(i + 1, len(singles)):
                    if set(singles[i]) & set(singles[j]):
                        inter = True
            out.stats['overlapping'] += inter
            if len(pps) >= 2 and inter:
                out.nontrivial((tuple(map(tuple, spec)), tuple(A.render_path(p_) for p_ in pps), tuple(A.render_path(e) for e in excl),
                                tuple(sorted(cfg)), delivery, how))
            if out.stats['cases'] % 47 == 1:
                out.sample({'tree': [e[1] + ('->' + e[2] if e[0] == 'l' else '/' if e[0] == 'd' else '') for e in spec],
                            'patterns': [A.render_path(p_) for p_ in pps], 'exclude': [A.render_path(e) for e in excl], 'cfg': cfg, 'how': how,
                            'single_results': [len(r) for r in singles]})
    test()
    return out


def replay(case):
    util.clear_caches()
    spec = [tuple(e) for e in case['tree']]
    pps = [A.from_json(a) for a in case['asts']]
    excl = [A.from_json(a) for a in case.get('excl_asts') or []]
    o = Outcome()
    with FC.built_tree(spec) as (root, _r):
        check_case(root, spec, pps, excl, case['cfg'], case.get('delivery', 'exclude'), case.get('how', 'list'), o, [])
    return (not o.violations), [dict(problem=v[2].get('problem'), name=v[2].get('name')) for v in o.violations]
