"""C11 - the pattern limit bounds expansion work in every API, default 1000."""
import os
import itertools

from ..runner import Outcome, HarnessError
from .. import util
from ..util import F, G, WM, WP, WCP

PROPERTY = 'C11'
RULE = ('case = (entry point, limit L, inclusion templates, exclusion templates, delivery); templates are brace ranges/sets, '
        'products and `|` splits whose total expansion count T and de-duplicated count U are known by construction; grid: L in '
        '{1,2,3,5,32,33,1000,1001} x totals {L-1, L, L+1, 1000*L} x decompositions into 1-3 inclusions and 0-2 exclusions '
        '(exclude= and inline), limit=0, and the defaults (no limit argument) at T in {1000, 1001}; 16 entry points; oracle: U > L '
        'must raise PatternLimitException, T <= L must not, otherwise undecided; items drawn from bracex.iexpand (wrapped by the '
        'harness) must be <= L + number of patterns; thorough adds random (L, template) draws; non-trivial = T or U within 1 of L, '
        'or an exclusion list present')
ASSUMPTIONS = ['negative limits are not generated (a unit test uses -1 as "unlimited")',
               'bracex.iexpand is wrapped to count the items wcmatch pulls; bracex itself counts eagerly']

LIMITS = [1, 2, 3, 5, 32, 33, 1000, 1001]


class Tpl:
    """A pattern text with known expansion counts."""

    def __init__(self, text, T, U):
        self.text, self.T, self.U = text, T, U

    def __repr__(self):
        return 'Tpl(%r,T=%d,U=%d)' % (self.text if len(self.text) < 40 else self.text[:37] + '...', self.T, self.U)


def rng(prefix, n):
    if n == 1:
        return Tpl(prefix + 'x', 1, 1)
    return Tpl('%s{1..%d}' % (prefix, n), n, n)


def product(prefix, n):
    """n = 2*k as {1..k}{a,b}; falls back to a range for odd n."""
    if n % 2 or n < 4:
        return rng(prefix, n)
    return Tpl('%s{1..%d}{a,b}' % (prefix, n // 2), n, n)


def split(prefix, n):
    if n > 40:
        return rng(prefix, n)
    return Tpl('|'.join('%ss%d' % (prefix, i) for i in range(n)), n, n)


def dup(prefix, n):
    """T = n, U = n - 1 (one duplicate) for n >= 2."""
    if n < 2:
        return rng(prefix, n)
    if n == 2:
        return Tpl('%s{a,a}' % prefix, 2, 1)
    return Tpl('%s{{1..%d},1}' % (prefix, n - 1), n, n - 1)


def pipe_in_brace(prefix, n):
    """A `|` inside ONE brace alternative: braces are expanded first, so `{pa|pb,p{1..k}}` is the k + 1 texts `pa|pb`, `p1`..`pk`,
    i.e. k + 2 patterns after splitting - the `|` does not multiply the other alternatives."""
    if n < 3 or n > 400:
        return rng(prefix, n)
    t = Tpl('{%sa|%sb,%s{1..%d}}' % (prefix, prefix, prefix, n - 2), n, n)
    t.pipe_in_brace = True
    return t


MAKERS = [rng, product, split, dup, pipe_in_brace]


def decompositions(n):
    """Ways to spread a total of n over (inclusions, exclusions)."""
    out = [([n], [])]
    if n >= 2:
        out.append(([n - 1], [1]))
        out.append(([1], [n - 1]))
        out.append(([n - n // 2, n // 2], []))
    if n >= 3:
        out.append(([n - 2], [1, 1]))
        out.append(([1, n - 2], [1]))
        out.append(([1, 1, n - 2], []))
    return out


# --- entry points ---------------------------------------------------------------------------------------

def entry_points(root):
    """name -> callable(patterns:list[str], exclude:list[str]|None, inline:bool, limit or None) performing the call."""
    BR = F.BRACE | F.SPLIT

    def kw(limit, excl):
        d = {}
        if limit is not None:
            d['limit'] = limit
        if excl is not None:
            d['exclude'] = excl
        return d

    def prep(pats, excl, inline, base_neg):
        if inline and excl:
            return pats + ['!' + e for e in excl], None, base_neg
        return pats, (excl if excl else None), 0

    eps = {}

    def add(name, fn):
        eps[name] = fn

    def mk(call, negflag, flags):
        def run(pats, excl, inline, limit):
            p, e, neg = prep(pats, excl, inline, negflag)
            return call(p, flags | neg, kw(limit, e))
        return run
    add('fnmatch.fnmatch', mk(lambda p, fl, k: F.fnmatch('zz', p, flags=fl, **k), F.NEGATE, BR))
    add('fnmatch.filter', mk(lambda p, fl, k: F.filter(['zz'], p, flags=fl, **k), F.NEGATE, BR))
    # nothing to filter: the patterns are counted all the same (an empty list, an empty tuple, an iterator that yields nothing)
    add('fnmatch.filter([])', mk(lambda p, fl, k: F.filter([], p, flags=fl, **k), F.NEGATE, BR))
    add('fnmatch.filter(())', mk(lambda p, fl, k: F.filter((), p, flags=fl, **k), F.NEGATE, BR))
    add('glob.globfilter([])', mk(lambda p, fl, k: G.globfilter([], p, flags=fl, **k), G.NEGATE, BR))
    add('glob.globfilter(iter(()))', mk(lambda p, fl, k: G.globfilter(iter(()), p, flags=fl, **k), G.NEGATE, BR))
    add('fnmatch.translate', mk(lambda p, fl, k: F.translate(p, flags=fl, **k), F.NEGATE, BR))
    add('fnmatch.compile', mk(lambda p, fl, k: F.compile(p, flags=fl, **k), F.NEGATE, BR))
    add('glob.globmatch', mk(lambda p, fl, k: G.globmatch('zz', p, flags=fl, **k), G.NEGATE, BR))
    add('glob.globfilter', mk(lambda p, fl, k: G.globfilter(['zz'], p, flags=fl, **k), G.NEGATE, BR))
    add('glob.translate', mk(lambda p, fl, k: G.translate(p, flags=fl, **k), G.NEGATE, BR))
    add('glob.compile', mk(lambda p, fl, k: G.compile(p, flags=fl, **k), G.NEGATE, BR))
    add('glob.glob', mk(lambda p, fl, k: G.glob(p, flags=fl, root_dir=root, **k), G.NEGATE, BR))
    add('glob.iglob', mk(lambda p, fl, k: list(G.iglob(p, flags=fl, root_dir=root, **k)), G.NEGATE, BR))
    add('PurePath.match', mk(lambda p, fl, k: WP.PurePosixPath('zz').match(p, flags=fl, **k), G.NEGATE, BR))
    add('PurePath.globmatch', mk(lambda p, fl, k: WP.PurePosixPath('zz').globmatch(p, flags=fl, **k), G.NEGATE, BR))
    add('PurePath.full_match', mk(lambda p, fl, k: WP.PurePosixPath('zz').full_match(p, flags=fl, **k), G.NEGATE, BR))
    add('Path.glob', mk(lambda p, fl, k: list(WP.Path(root).glob(p, flags=fl, **k)), G.NEGATE, BR))
    add('Path.rglob', mk(lambda p, fl, k: list(WP.Path(root).rglob(p, flags=fl, **k)), G.NEGATE, BR))
    # the same walkers with flags that change how patterns are de-duplicated / delivered, not how many there are
    add('glob.glob(NOUNIQUE)', mk(lambda p, fl, k: G.glob(p, flags=fl | G.NOUNIQUE, root_dir=root, **k), G.NEGATE, BR))
    add('glob.iglob(NOUNIQUE|NODIR)', mk(lambda p, fl, k: list(G.iglob(p, flags=fl | G.NOUNIQUE | G.NODIR, root_dir=root, **k)), G.NEGATE, BR))
    add('Path.glob(NOUNIQUE)', mk(lambda p, fl, k: list(WP.Path(root).glob(p, flags=fl | G.NOUNIQUE, **k)), G.NEGATE, BR))
    add('glob.glob(SCANDOTDIR|MATCHBASE)', mk(lambda p, fl, k: G.glob(p, flags=fl | G.SCANDOTDIR | G.MATCHBASE, root_dir=root, **k), G.NEGATE, BR))
    add('glob.globfilter(REALPATH|NODIR)', mk(lambda p, fl, k: G.globfilter(['zz'], p, flags=fl | G.REALPATH | G.NODIR, root_dir=root, **k), G.NEGATE, BR))

    def wm(pats, excl, inline, limit):
        # WcMatch takes one `|`-separated string; exclusions are inline `!` pieces (NEGATE and SPLIT are always on)
        text = '|'.join(pats + ['!' + e for e in (excl or [])])
        k = {} if limit is None else {'limit': limit}
        return WM.WcMatch(root, text, flags=WM.BRACE, **k).match()
    add('wcmatch.WcMatch', wm)

    def wmx(rec):
        def run(pats, excl, inline, limit):
            # the folder-exclusion pattern has a budget of its own, with or without RECURSIVE
            text = '|'.join(pats + ['!' + e for e in (excl or [])])
            k = {} if limit is None else {'limit': limit}
            return WM.WcMatch(root, '*', text, flags=WM.BRACE | (WM.RECURSIVE if rec else 0), **k).match()
        return run
    add('wcmatch.WcMatch(exclude_pattern)', wmx(False))
    add('wcmatch.WcMatch(exclude_pattern,RECURSIVE)', wmx(True))
    return eps


class WorkExceeded(BaseException):
    """Raised by the harness wrapper when far more expansions are pulled than any limit allows (BaseException so that
    wcmatch's own `except Exception` around brace expansion cannot swallow it)."""


class BracexCounter:
    def __init__(self, cap=None):
        self.cap = cap

    def __enter__(self):
        import bracex
        self.bracex = bracex
        self.orig = bracex.iexpand
        self.drawn = 0
        self.limits = []
        outer = self

        def iexpand(*a, **k):
            outer.limits.append(k.get('limit', 'default'))
            for item in outer.orig(*a, **k):
                outer.drawn += 1
                if outer.cap is not None and outer.drawn > outer.cap:
                    raise WorkExceeded(outer.drawn)
                yield item
        bracex.iexpand = iexpand
        return self

    def __exit__(self, *a):
        self.bracex.iexpand = self.orig
        return False


def verdict(incs, excs, L):
    U = sum(t.U for t in incs) + sum(t.U for t in excs)
    T = sum(t.T for t in incs) + sum(t.T for t in excs)
    if L == 0:
        return 'MUSTNOT', T, U
    if U > L:
        return 'MUST', T, U
    if T <= L:
        return 'MUSTNOT', T, U
    return 'EITHER', T, U


def run_case(eps, ename, incs, excs, inline, L, out, armed, explicit=True):
    """L=None means: do not pass limit= (default)."""
    effL = 1000 if L is None else L
    v, T, U = verdict(incs, excs, effL)
    pats = [t.text for t in incs]
    excl = [t.text for t in excs]
    if ename.startswith('wcmatch.WcMatch'):
        inline = True
        # one `|`-joined string: braces are expanded over the whole string before it is split, so every brace
        # alternative repeats all the other pieces.  Decided only when at most one piece carries braces.
        allt = incs + excs
        braced = [t for t in allt if '{' in t.text]
        pieces = sum(t.text.count('|') + 1 for t in allt)
        if len(braced) > 1 or (any(getattr(t, 'pipe_in_brace', False) for t in allt) and len(allt) > 1):
            v = 'EITHER'
        elif braced and getattr(braced[0], 'pipe_in_brace', False):
            pass          # a single template: T and U are as computed
        elif braced:
            b = braced[0]
            T = b.T * pieces
            U = b.U + (pieces - 1)
            v = 'MUSTNOT' if effL == 0 else ('MUST' if U > effL else ('MUSTNOT' if T <= effL else 'EITHER'))
    case = {'entry': ename, 'limit': L, 'include': [repr(t) for t in incs], 'exclude': [repr(t) for t in excs], 'inline': inline,
            'T': T, 'U': U, 'verdict': v, 'patterns': pats if sum(map(len, pats)) < 300 else None, 'excl_patterns': excl if sum(map(len, excl)) < 300 else None}
    raised = None
    npats_ = len(pats) + len(excl)
    cap = None if effL == 0 else effL + npats_ + 50
    huge = T >= 100000000
    with BracexCounter(cap) as bc:
        try:
            with util.watchdog(60 if huge else 300):
                eps[ename](pats, excl, inline, L)
            raised = False
        except WCP.PatternLimitException:
            raised = True
        except util.HarnessBudget:
            if huge and effL > 0:
                out.violation(dict(case, problem='`{1..100000000}` was not rejected fast (no answer within 60 s for O(limit) work)'),
                              size=10, bucket=('work-time', ename))
            else:
                out.stats['watchdog_skipped'] += 1
            return
        except WorkExceeded:
            out.violation(dict(case, problem='expansion work not bounded by the limit (harness stopped the expansion)', drawn=bc.drawn),
                          size=T, bucket=('work', ename))
            return
        except Exception as e:
            out.violation(dict(case, problem='unexpected exception', error=list(util.exc_bucket(e))), bucket=('exc', ename, type(e).__name__))
            return
    case['raised'] = raised
    case['drawn'] = bc.drawn
    npats = len(pats) + len(excl)
    if v == 'EITHER':
        out.either += 1
    else:
        out.evaluations += 1
        if raised != (v == 'MUST'):
            fid = classify(case, armed)
            if fid:
                out.known_hit(fid, case)
            else:
                out.violation(dict(case, problem='did not raise' if v == 'MUST' else 'raised below the limit'),
                              size=T + len(str(pats)), bucket=(ename, v, bool(excs), inline, L is None))
            return
    if effL > 0 and bc.drawn > effL + npats + 1:
        out.violation(dict(case, problem='expansion work not bounded by the limit'), size=T, bucket=('work', ename))
        return
    # the brace expander does its work before it yields the first item, so the bound must be handed to it: with a positive
    # limit every bracex.iexpand call must receive a positive bound no larger than the limit
    unbounded = [l for l in bc.limits if not (isinstance(l, int) and 0 < l <= effL)]
    if effL > 0 and unbounded:
        out.violation(dict(case, problem='brace expansion invoked without an effective bound although a positive limit is in force',
                           bracex_limits=[repr(l) for l in bc.limits][:6]), size=T, bucket=('bracex-bound', ename))
        return
    if abs(T - effL) <= 1 or abs(U - effL) <= 1 or excs:
        out.nontrivial((ename, L, tuple(pats), tuple(excl), inline))


def classify(case, armed):
    if 'K12' in armed and case['entry'].startswith('wcmatch.WcMatch') and case['limit'] is None:
        return 'K12'
    if 'K13' in armed and case['excl_patterns'] and not case['inline'] and not case['raised'] and case['verdict'] == 'MUST' \
            and case['entry'] not in ('glob.glob', 'glob.iglob', 'Path.glob', 'Path.rglob'):
        return 'K13'
    if 'K19' in armed and case['excl_patterns'] and not case['inline'] and not case['raised'] and case['verdict'] == 'MUST' \
            and case['entry'] in ('glob.glob', 'glob.iglob', 'Path.glob', 'Path.rglob'):
        return 'K19'
    return None


def grid_cases():
    """The deterministic boundary grid: (L, incs, excs, inline)."""
    for L in LIMITS:
        totals = sorted({max(1, L - 1), L, L + 1})
        for n in totals:
            for di, (ins, exs) in enumerate(decompositions(n)):
                for mi, maker in enumerate(MAKERS):
                    if (di + mi) % 2 and n > 40:
                        continue      # halve the expensive large cases
                    incs = [maker('i%d_' % k, c) for k, c in enumerate(ins)]
                    excs = [MAKERS[(mi + 1) % 3]('e%d_' % k, c) for k, c in enumerate(exs)]
                    for inline in ((False, True) if exs else (False,)):
                        yield L, incs, excs, inline
        # far over the limit: must fail fast
        yield L, [rng('h_', 1000 * L)], [], False
        yield L, [rng('h_', 3)], [rng('g_', 1000 * L)], False
    # huge ranges: must fail fast instead of being materialised.  3 000 000 keeps a broken implementation (one that expands
    # everything first) within seconds and a few hundred MB, so that the harness's item counter - not a stopwatch - decides;
    # `{1..100000000}` (the statement's own example) is tried under a watchdog: an implementation that needs more than 60 s for
    # O(L) work is reported, a correct one answers in microseconds
    yield 5, [Tpl('{1..3000000}', 3000000, 3000000)], [], False
    yield 1000, [Tpl('a{1..1500000}{x,y}', 3000000, 3000000)], [], False
    yield 3, [rng('h_', 2)], [Tpl('{1..3000000}', 3000000, 3000000)], False
    # the exclusions use up the limit exactly (or all but one): the inclusion must still be rejected after O(L) work
    for L in (1, 2, 3, 5, 32):
        yield L, [Tpl('{1..3000000}', 3000000, 3000000)], [rng('e_', L)], False
        yield L, [Tpl('{1..3000000}', 3000000, 3000000)], [rng('e_', L)], True
        yield L + 1, [Tpl('x{1..3000000}', 3000000, 3000000)], [rng('e_', L)], False
        yield L, [rng('a_', 1), Tpl('{1..3000000}', 3000000, 3000000)], [rng('e_', max(1, L - 1))], False
    yield 5, [Tpl('{1..100000000}', 100000000, 100000000)], [], False
    # limit=0 disables the check
    yield 0, [rng('z_', 1500)], [], False
    yield 0, [rng('z_', 700)], [rng('y_', 600)], False
    yield 0, [rng('z_', 700)], [rng('y_', 600)], True
    # defaults
    for n in (999, 1000, 1001):
        yield None, [rng('d_', n)], [], False
        yield None, [product('d_', n)], [], False
        yield None, [rng('d_', n - 1)], [rng('e_', 1)], False
        yield None, [rng('d_', n - 1)], [rng('e_', 1)], True
        yield None, [rng('d_', 1)], [rng('e_', n - 1)], False


def shards(tier, seed, scale=1.0):
    out = []
    S = 32
    for s in range(S):
        out.append({'name': 'grid-%d' % s, 'kind': 'grid', 'shard': s, 'of': S})
    if tier == 'thorough':
        for s in range(16):
            out.append({'name': 'rand-%d' % s, 'kind': 'rand', 'seed': seed * 1000 + s, 'n': int(130 * scale)})
    else:
        for s in range(8):
            out.append({'name': 'rand-%d' % s, 'kind': 'rand', 'seed': seed * 1000 + s, 'n': max(4, int(12 * scale))})
    out.append({'name': 'defaults', 'kind': 'defaults'})
    return out


def run_shard(desc):
    k = desc['kind']
    if k == 'grid':
        return run_grid(desc)
    if k == 'rand':
        return run_rand(desc)
    if k == 'defaults':
        return run_defaults(desc)
    raise HarnessError(k)


def run_grid(desc):
    out = Outcome()
    out.exhaustive = True
    s, S = desc['shard'], desc['of']
    with util.temp_root() as root:
        eps = entry_points(root)
        names = sorted(eps)
        idx = 0
        for L, incs, excs, inline in grid_cases():
            for ename in names:
                idx += 1
                if idx % S != s:
                    continue
                run_case(eps, ename, incs, excs, inline, L, out, desc['armed'])
                if idx % 601 == s:
                    out.sample({'entry': ename, 'limit': L, 'include': [repr(t) for t in incs], 'exclude': [repr(t) for t in excs],
                                'inline': inline})
    out.stats['grid_calls'] += idx // S
    return out


def run_rand(desc):
    from hypothesis import given, strategies as st, seed
    out = Outcome()
    with util.temp_root() as root:
        eps = entry_points(root)
        names = sorted(eps)

        @seed(desc['seed'])
        @util.hyp_settings(desc['n'], shrink=False)
        @given(st.integers(1, 1100), st.lists(st.tuples(st.integers(0, 3), st.integers(1, 1200)), min_size=1, max_size=3),
               st.lists(st.tuples(st.integers(0, 3), st.integers(1, 600)), min_size=0, max_size=2), st.booleans(), st.sampled_from(names),
               st.integers(-2, 2))
        def test(L, ins, exs, inline, ename, near):
            # pull the total next to the limit half of the time
            if near and ins:
                tot = sum(c for _m, c in ins[1:]) + sum(c for _m, c in exs)
                first = max(1, L + near - tot)
                ins = [(ins[0][0], first)] + ins[1:]
            incs = [MAKERS[m]('i%d_' % k, c) for k, (m, c) in enumerate(ins)]
            excs = [MAKERS[m]('e%d_' % k, c) for k, (m, c) in enumerate(exs)]
            run_case(eps, ename, incs, excs, inline, L, out, desc['armed'])
            out.stats['rand_cases'] += 1
        test()
    return out


def run_defaults(desc):
    """The default value of limit= is 1000 in every signature."""
    import inspect
    out = Outcome()
    sigs = {
        'fnmatch.fnmatch': F.fnmatch, 'fnmatch.filter': F.filter, 'fnmatch.translate': F.translate, 'fnmatch.compile': F.compile,
        'glob.globmatch': G.globmatch, 'glob.globfilter': G.globfilter, 'glob.translate': G.translate, 'glob.compile': G.compile,
        'glob.glob': G.glob, 'glob.iglob': G.iglob, 'PurePath.match': WP.PurePath.match, 'PurePath.globmatch': WP.PurePath.globmatch,
        'PurePath.full_match': WP.PurePath.full_match, 'Path.glob': WP.Path.glob, 'Path.rglob': WP.Path.rglob,
        'wcmatch.WcMatch': WM.WcMatch.__init__,
    }
    for name, fn in sorted(sigs.items()):
        d = inspect.signature(fn).parameters['limit'].default
        out.evaluations += 1
        out.nontrivial(('default', name))
        if d != 1000:
            case = {'entry': name, 'limit': None, 'problem': 'default limit is not 1000', 'default': d, 'excl_patterns': None, 'inline': False,
                    'raised': None, 'verdict': 'MUSTNOT', 'signature': True}
            if 'K12' in desc['armed'] and name == 'wcmatch.WcMatch':
                out.known_hit('K12', case)
            else:
                out.violation(case, bucket=('default', name))
    out.sample({'entry': 'signature defaults', 'checked': sorted(sigs)})
    return out


def replay(case):
    util.clear_caches()
    if case.get('signature'):
        o = Outcome()
        run_defaults({'armed': []})
        import inspect
        d = inspect.signature(WM.WcMatch.__init__).parameters['limit'].default if case['entry'].startswith('wcmatch.WcMatch') else 1000
        return d == 1000, {'default': d}
    pats, excl = case.get('patterns'), case.get('excl_patterns')
    if pats is None:
        return True, {'note': 'pattern text too long to be stored; re-run the grid'}
    incs = [Tpl(p, t[0], t[1]) for p, t in zip(pats, case['counts_inc'])] if 'counts_inc' in case else None
    o = Outcome()
    with util.temp_root() as root:
        eps = entry_points(root)
        L = case['limit']
        with BracexCounter() as bc:
            try:
                eps[case['entry']](pats, excl or [], case['inline'], L)
                raised = False
            except WCP.PatternLimitException:
                raised = True
    v = case['verdict']
    ok = v == 'EITHER' or raised == (v == 'MUST')
    effL = 1000 if L is None else L
    if effL > 0 and bc.drawn > effL + len(pats) + len(excl or []) + 1:
        ok = False
    return ok, {'raised': raised, 'drawn': bc.drawn, 'verdict': v}
