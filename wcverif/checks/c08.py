"""C08 - translate returns regexes that mean exactly what match does; one capturing group per extended group."""
import re

from .. import findings as K
from ..runner import Outcome, HarnessError
from .. import ast as A, ref as R, names as N, lang, util
from ..util import F, G
from . import c02

PROPERTY = 'C08'
RULE = ('case = (pattern list, exclusion list, flags, name); patterns from the C01/C02/C07 generators (bounded-exhaustive ASTs, '
        'Hypothesis ASTs, lists with exclude= / NEGATE / SPLIT / BRACE / NODIR); for each case every regex from translate() is '
        'compiled, `any(fullmatch(inc)) and not any(fullmatch(exc))` is compared with fnmatch()/globmatch() on every name up to '
        'length 3-4 over the minterm representatives (+ "/" in path mode), the number of capturing groups is compared with the '
        'number of extended groups of the AST (in order of opening) and, for accepted names, the text captured by each group '
        'outside `!(...)` must be in the reference language of that group; evaluations = compared (case, name) pairs; '
        'non-trivial = the pattern has an extended group and some name was accepted and some rejected')
ASSUMPTIONS = [
    'differential between two code paths of wcmatch (translate vs compile); the reference model is used only for captured text',
    'REALPATH is excluded (translate cannot express it)',
]


def derive_names(p):
    if isinstance(p, bytes):
        p = p.decode('latin-1')
    plain = re.sub(r'[\\!?*@+()\[\]|{}]', '', p)
    return [n for n in (p, plain, plain[:1] or 'a', 'a') if n]


def differential(p, fn_names, gl_names, names=None):
    """translate() regexes vs fnmatch()/globmatch() on concrete names; returns problem dicts (C10 format).
    Used by the atheris target on raw text."""
    problems = []
    if names is None:
        names = derive_names(p)
    isb = isinstance(p, bytes)
    for mode, mod, flnames, table in (('fn', F, fn_names, util.FN_FLAGS), ('gl', G, gl_names, util.GL_FLAGS)):
        fl = util.flags_of([n for n in flnames if n != 'REALPATH'], table)
        try:
            inc, exc = mod.translate(p, flags=fl)
            inc = [re.compile(r) for r in inc]
            exc = [re.compile(r) for r in exc]
        except Exception:
            continue
        for nm in names:
            nmx = nm.encode('latin-1', 'replace') if isb else nm
            try:
                got = (mod.fnmatch if mode == 'fn' else mod.globmatch)(nmx, p, flags=fl)
            except Exception:
                continue
            want = any(r.fullmatch(nmx) for r in inc) and not any(r.fullmatch(nmx) for r in exc)
            if bool(got) != bool(want):
                problems.append({'entry': ('fnmatch' if mode == 'fn' else 'glob') + '.translate-vs-match',
                                 'bucket': ['MISMATCH', mode, 'translate=%s match=%s' % (want, got)],
                                 'pattern': p if not isb else p.decode('latin-1'), 'flags': list(flnames), 'name': nm})
                break
    return problems


def ext_nodes(seq, inside_neg=False, out=None):
    """Extended groups in order of opening: list of (node, inside_negation)."""
    if out is None:
        out = []
    for n in seq:
        if n[0] == 'ext':
            out.append((n, inside_neg or n[1] == '!'))
            for a in n[2]:
                ext_nodes(a, inside_neg or n[1] == '!', out)
    return out


def check_one(mode, pats, excl, flags, names, out, asts=None, stream='enum', extra=None):
    """pats/excl: pattern text (str or list).  asts: list of Seq (fn) or PathPat (gl) for the group checks, or None."""
    mod = F if mode == 'fn' else G
    case = {'mode': mode, 'patterns': pats, 'exclude': excl, 'flags': flags, 'stream': stream}
    if extra:
        case.update(extra)
    kw = {} if excl is None else {'exclude': excl}
    try:
        with util.watchdog(5):
            inc_s, exc_s = mod.translate(pats, flags=flags, **kw)
            m = mod.compile(pats, flags=flags, **kw)
            first = pats if isinstance(pats, (str, bytes)) else (pats[0] if pats else '')
            wrong = [r for r in list(inc_s) + list(exc_s) if type(r) is not type(first)]
            if wrong:
                out.violation(dict(case, patterns=repr(pats), exclude=repr(excl), problem='translate returns a regex whose type is not the type of the patterns',
                                   regex=repr(wrong[0])), bucket=('regex-type', mode))
                return
            try:
                inc = [re.compile(r) for r in inc_s]
                exc = [re.compile(r) for r in exc_s]
            except re.error as e:
                out.violation(dict(case, problem='regex does not compile', error=str(e)), bucket=('nocompile', mode))
                return
            acc = rej = 0
            for nm in names:
                want = any(r.fullmatch(nm) for r in inc) and not any(r.fullmatch(nm) for r in exc)
                got = m.match(nm)
                out.evaluations += 1
                if bool(got) != bool(want):
                    out.violation(dict(case, name=nm, translate=bool(want), impl=bool(got), problem='translate differs from match'),
                                  size=len(str(pats)) * 10 + len(nm), bucket=('mismatch', mode, bool(want)))
                    return
                acc += bool(got)
                rej += not got
            # --- capture groups -------------------------------------------------------------------
            if asts is not None and len(asts) == len(inc) and (flags & F.EXTMATCH):
                for ast_, rx in zip(asts, inc):
                    seqs = [s for s in ast_.segs if not isinstance(s, str)] if isinstance(ast_, A.PathPat) else [ast_]
                    nodes = []
                    for s in seqs:
                        nodes.extend(ext_nodes(s))
                    if rx.groups != len(nodes):
                        if 'K1' in ARMED and K.k1_text(pats, mode == 'gl'):
                            out.known_hit('K1', dict(case, problem='group count'))
                            return
                        out.violation(dict(case, problem='group count', groups=rx.groups, ext_nodes=len(nodes), regex=rx.pattern),
                                      size=len(str(pats)), bucket=('groups', mode))
                        return
                    if not nodes:
                        continue
                    for nm in names:
                        mm = rx.fullmatch(nm)
                        if not mm:
                            continue
                        for gi, (node, neg) in enumerate(nodes, 1):
                            if neg or A.has_ext((node,), '!'):
                                continue
                            cap = mm.group(gi)
                            if cap is None:
                                continue
                            out.evaluations += 1
                            # (the regex itself says whether it folds case: IGNORECASE, or Windows rules without CASE)
                            icase = bool(rx.flags & re.IGNORECASE) or '(?si:' in rx.pattern[:8] or '(?is:' in rx.pattern[:8]
                            if not R.Matcher(cap, 'plain', 'unicode' if icase else False, '/' if mode == 'gl' else '').full((node,)):
                                out.violation(dict(case, name=nm, problem='captured text not in the language of its group', group=gi,
                                                   captured=cap, group_text=A.render((node,)), regex=rx.pattern),
                                              size=len(str(pats)) * 10 + len(nm), bucket=('capture', mode, node[1]))
                                return
            has_ext = asts is not None and any(
                (any(A.has_ext(s) for s in a.segs if not isinstance(s, str)) if isinstance(a, A.PathPat) else A.has_ext(a)) for a in asts)
            if acc and rej and (has_ext or asts is None):
                out.nontrivial((mode, str(pats), str(excl), flags))
    except util.HarnessBudget:
        out.stats['watchdog_skipped'] += 1
    except Exception as e:
        # crashes belong to C10; here they only make the case inconclusive
        out.stats['exception_skipped:' + type(e).__name__] += 1


ARMED = set()


def shards(tier, seed, scale=1.0):
    out = []
    if tier == 'quick':
        fb, FS, pb, PS, hyp_n, fuzz = 3, 16, 3, 16, 250, 6000
    else:
        fb, FS, pb, PS, hyp_n, fuzz = 4, 96, 4, 128, 4000, 200000
    for s in range(FS):
        out.append({'name': 'fn-enum-%d' % s, 'kind': 'fn-enum', 'shard': s, 'of': FS, 'budget': fb})
    for s in range(PS):
        out.append({'name': 'path-enum-%d' % s, 'kind': 'path-enum', 'shard': s, 'of': PS, 'budget': pb})
    for s in range(16):
        out.append({'name': 'hyp-%d' % s, 'kind': 'hyp', 'seed': seed * 1000 + s, 'n': max(10, int(hyp_n * scale))})
    for s in range(4):
        out.append({'name': 'grid-%d' % s, 'kind': 'grid', 'shard': s, 'of': 4})
    for s in range(2 if tier == 'quick' else 8):
        out.append({'name': 'fuzz-%d' % s, 'kind': 'fuzz', 'seed': seed * 100 + 50 + s, 'runs': int(fuzz * scale), 'empty_corpus': s % 2 == 1})
    return out


def run_shard(desc):
    ARMED.clear()
    ARMED.update(desc['armed'])
    k = desc['kind']
    if k == 'fn-enum':
        return run_fn_enum(desc)
    if k == 'path-enum':
        return run_path_enum(desc)
    if k == 'hyp':
        return run_hyp(desc)
    if k == 'grid':
        return run_grid(desc)
    if k == 'fuzz':
        # coverage-guided bytes -> (flags, pattern); the translate-vs-match oracle runs inside the atheris target
        from . import c10
        o = c10.run_fuzz(desc, want='mismatch')
        for i, (sz, b, c) in enumerate(o.violations):
            c.setdefault('mode', 'fn' if c.get('bucket', ['', 'fn'])[1] == 'fn' else 'gl')
            c['problem'] = 'translate differs from match (atheris)'
        return o
    raise HarnessError(k)


FN_CFG = [F.EXTMATCH, F.EXTMATCH | F.DOTMATCH, F.EXTMATCH | F.IGNORECASE, F.EXTMATCH | F.NEGATE | F.SPLIT]
GL_CFG = [G.EXTGLOB, G.EXTGLOB | G.GLOBSTAR | G.DOTGLOB, G.EXTGLOB | G.GLOBSTAR | G.MATCHBASE, G.EXTGLOB | G.NODOTDIR | G.NODIR,
          G.EXTGLOB | G.GLOBSTARLONG | G.NEGATE]


def run_fn_enum(desc):
    out = Outcome()
    out.exhaustive = True
    s, S = desc['shard'], desc['of']
    idx = 0
    for seq in A.enum_upto(desc['budget'], A.atoms_default()):
        idx += 1
        if idx % S != s:
            continue
        alpha, _c = N.representatives([seq], extra='.\n' if idx % 8 == 0 else '.', cap=4)
        names = list(N.all_names(alpha, 3))
        text = A.render(seq)
        for fl in (FN_CFG[0], FN_CFG[1 + idx % 3]):
            check_one('fn', text, None, fl, names, out, asts=[seq], extra={'ast': A.to_json(seq)})
        if idx % 1999 == s:
            out.sample({'pattern': text, 'names': len(names), 'stream': 'fn-enum'})
    return out


def run_path_enum(desc):
    out = Outcome()
    out.exhaustive = True
    s, S = desc['shard'], desc['of']
    idx = 0
    for segs in c02.enum_pathpats(desc['budget']):
        idx += 1
        if idx % S != s:
            continue
        seqs = [x for x in segs if not isinstance(x, str)]
        alpha, _c = N.representatives(seqs, extra='.', cap=3)
        paths = list(N.all_names(alpha + '/', 4))
        for pp in c02.variants(segs, idx):
            text = A.render_path(pp)
            for fl in (GL_CFG[0], GL_CFG[1 + idx % 4]):
                check_one('gl', text, None, fl, paths, out, asts=[pp], extra={'ast': A.to_json(pp)})
        if idx % 1999 == s:
            out.sample({'pattern': A.render_path(A.PathPat(False, segs, False, 1)), 'paths': len(paths), 'stream': 'path-enum'})
    return out


GRID_LISTS = [['', '!b'], ['!b', ''], ['!b|'], ['|!b'], [''], ['a||b'], ['!skip'], ['!skip', '!other*'], ['*', '!a'], ['-a'], ['*', '-a*'], ['a', 'b'], ['*.txt|!a.txt'], ['!a|!b'], ['**', '!**/a'], ['*/'],
              ['!*/'], ['{a,b}*', '!b*'], ['!.a'], ['*', '!.*'], ['.*', '!.a'], ['a/**', '!a/b'], ['!(a)'], ['!(a)', '!b'], ['\\!a'], ['!!a'],
              ['*', '-(a)'], ['-(a)'], ['*', '-(a|b)'], ['-(a)*', '!(a)']]
GRID_EXCL = [None, 'a', ['a', 'b*'], '!keep', '.*', '*/', [], '', ()]      # (an empty exclude= is still an exclude=)
GRID_FLAGS = ['NEGATE', 'NEGATEALL', 'NODIR', 'MINUSNEGATE', 'SPLIT', 'DOTMATCH', 'GLOBSTAR', 'EXTMATCH', 'BRACE']
GRID_NAMES = ['a', 'b', 'ab', 'a.txt', 'b.txt', 'skip', 'other1', 'keep', 'keep/', 'a/', 'a/b', 'a/b/', 'x/a', '.a', '.b', 'x/.a', '!a', '-a', '!keep',
              '!skip', 'a/.', 'd/..', '.', '..', 'x', 'x/', '(a)', '-(a)', '(a|b)', '(a)x']


def run_grid(desc):
    """Every subset of nine list-related flags on a table of list shapes (exclusion-only lists, inline and exclude= forms,
    SPLIT/BRACE pieces, directory-looking names for NODIR): translate() must mean what the matcher does."""
    out = Outcome()
    out.exhaustive = True
    s, S = desc['shard'], desc['of']
    idx = 0
    for pats in GRID_LISTS:
        for ex in GRID_EXCL:
            for i in range(1 << len(GRID_FLAGS)):
                idx += 1
                if idx % S != s:
                    continue
                names = [n for j, n in enumerate(GRID_FLAGS) if i >> j & 1]
                for mode in ('fn', 'gl'):
                    table = util.FN_FLAGS if mode == 'fn' else util.GL_FLAGS
                    fl = util.flags_of([n for n in names if n in table], table)
                    check_one(mode, list(pats), ex, fl, GRID_NAMES, out, stream='grid')
                    if idx % 3 == 0:
                        # the same list as bytes (as a list, and as a tuple)
                        enc = lambda x: None if x is None else (x.encode() if isinstance(x, str) else type(x)(y.encode() for y in x))
                        bp = [p_.encode() for p_ in pats]
                        check_one(mode, bp if idx % 2 else tuple(bp), enc(ex), fl, [n.encode() for n in GRID_NAMES], out, stream='grid-bytes')
    if s == 0:
        # character escapes that decode to list / brace / group metacharacters: translate() must decode where the matcher does
        raw_lists = [[r'*.py\x7c*.txt'], [r'\x7bfoo,bar\x7d.py'], [r'a\x7cb'], [r'\x21a', '*'], [r'\x2da', '*'], [r'\x2a'], [r'[\x61-\x63]'],
                     [r'@\x28a\x7cb\x29'], [r'\\x7c'], [r'{a\x2cb}'], [r'\174'], [r'a\u007cb'], [r'\N{VERTICAL LINE}']]
        raw_flags = ['RAWCHARS', 'SPLIT', 'BRACE', 'NEGATE', 'MINUSNEGATE', 'EXTMATCH', 'FORCEWIN']
        raw_names = ['a.py', 'b.txt', 'a.py|b.txt', 'foo.py', 'bar.py', '{foo,bar}.py', 'a', 'b', 'a|b', '!a', '-a', '*', 'c', '@(a|b)', '\\x7c', 'x7c',
                     '{a,b}', '|', 'x2a', 'zz']
        for pats in raw_lists:
            for i in range(1 << len(raw_flags)):
                names = [n for j, n in enumerate(raw_flags) if i >> j & 1]
                for mode in ('fn', 'gl'):
                    table = util.FN_FLAGS if mode == 'fn' else util.GL_FLAGS
                    check_one(mode, list(pats), None, util.flags_of(names, table), raw_names, out, stream='grid-raw')
                    if all(p_.isascii() for p_ in pats) and 'N{' not in pats[0] and '\\u' not in pats[0]:
                        check_one(mode, [p_.encode() for p_ in pats], None, util.flags_of(names, table), [n.encode() for n in raw_names], out,
                                  stream='grid-raw-bytes')
    out.sample({'stream': 'grid', 'lists': len(GRID_LISTS), 'exclude_forms': len(GRID_EXCL), 'flag_subsets': 1 << len(GRID_FLAGS)})
    return out


def run_hyp(desc):
    from hypothesis import given, strategies as st, seed
    out = Outcome()
    big = desc['tier'] == 'thorough'
    seq = A.st_seq(max_budget=10 if big else 7, max_depth=3, max_alts=3)
    fn_bits = [F.DOTMATCH, F.IGNORECASE, F.CASE, F.NEGATE, F.MINUSNEGATE, F.SPLIT, F.BRACE, F.NEGATEALL, F.FORCEWIN, F.FORCEUNIX,
               F.RAWCHARS]
    gl_bits = fn_bits + [G.GLOBSTAR, G.GLOBSTARLONG, G.MATCHBASE, G.NODIR, G.NODOTDIR, G.GLOBTILDE, G.FOLLOW]

    RAW = ['[(?#)]', '[x(?#)]', 'a(?#)b', '[?:]', '!test', '!a', '-a', '!(a)', '(a)', '-(a)', '!', '-', '!*', '-*', '!!a', 'a|!b', '{!a,b}', '\\!a', '!.a', '-.a']
    raw = st.sampled_from(RAW)

    @seed(desc['seed'])
    @util.hyp_settings(desc['n'], shrink=False)
    @given(st.lists(seq, min_size=1, max_size=3), st.one_of(st.none(), st.lists(st.one_of(seq, seq, raw), min_size=1, max_size=2)), st.booleans(),
           st.lists(st.sampled_from(gl_bits), max_size=5, unique=True), st.booleans(), st.data(), st.one_of(st.none(), raw))
    def test(incs, excs, pathmode, bits, ext, data, raw_inc):
        incs = [s for s in incs if s]
        if not incs:
            return
        raw_excs = [e for e in (excs or []) if isinstance(e, str)]
        excs = [s for s in excs if s and not isinstance(s, str)] if excs is not None else None
        fl = 0
        for b in bits:
            if pathmode or b in fn_bits:
                fl |= b
        if ext:
            fl |= F.EXTMATCH
        render = (lambda s: A.render(s)) if ext else (lambda s: A.render_plain(A.flatten_ext(s)))
        pats = [render(s) for s in incs] + ([raw_inc] if raw_inc else [])
        if raw_inc and raw_inc[:1] in '!-' and data.draw(st.booleans()):
            # only exclusions: the inclusion is the implicit NEGATEALL default (or nothing)
            pats = [raw_inc] + raw_excs[:1]
            fl |= F.NEGATE | (F.NEGATEALL if data.draw(st.booleans()) else 0)
        excl = ([render(s) for s in excs] if excs else []) + raw_excs
        excl = excl or None
        draw_int = lambda lo, hi: data.draw(st.integers(lo, hi))
        alpha, _c = N.representatives(incs + (excs or []), icase=bool(fl & F.IGNORECASE), extra='.', cap=3)
        names = set(N.all_names(alpha + ('/' if pathmode else ''), 3))
        for s_ in incs:
            for g in N.guided_names(s_, draw_int, want=2):
                names.add(g)
                names.add(g.swapcase())
                if pathmode:
                    names.add('x/' + g)
                    names.add(g + '/')
        names |= {'!test', '!a', '-a', '(a)', 'test', '!', '-', '.a', '!.a', 'b', '(', '#', '?', 'x', ':'}
        if pathmode:
            names |= {'keep/', 'a/', 'a/b/', 'x', 'a/.', 'd/..'}
        names.discard('')
        plain_single = len(pats) == 1 and excl is None and not (fl & (F.SPLIT | F.BRACE | F.NEGATE | F.RAWCHARS | G.GLOBTILDE))
        asts = None
        if plain_single and ext and not pathmode:
            asts = [incs[0]]
        out.stats['hyp_cases'] += 1
        out.stats['hyp_lists'] += len(pats) > 1
        out.stats['hyp_with_exclude'] += excl is not None
        out.stats['hyp_pathmode'] += pathmode
        check_one('gl' if pathmode else 'fn', pats if len(pats) > 1 else pats[0], excl, fl, sorted(names), out, asts=asts, stream='hyp')
        if out.stats['hyp_cases'] % 67 == 1:
            out.sample({'patterns': pats, 'exclude': excl, 'flags': util.names_of(fl), 'pathmode': pathmode, 'names': len(names), 'stream': 'hyp'})
    test()
    return out


def replay(case):
    util.clear_caches()
    o = Outcome()
    if case.get('stream') == 'atheris':
        fn_names = [n for n in case.get('flags', []) if n in util.FN_FLAGS]
        problems = differential(case['pattern'], fn_names, case.get('flags', []), [case['name']] if case.get('name') else None)
        return (not problems), [p_['bucket'] for p_ in problems]
    mode = case['mode']
    asts = None
    if 'ast' in case:
        asts = [A.from_json(case['ast'])]
    names = [case['name']] if case.get('name') is not None else ['a', 'ab', '.a', 'a/b']
    if case.get('problem') in ('group count', 'regex does not compile'):
        names = ['a']
    check_one(mode, case['patterns'], case.get('exclude'), case['flags'], names, o, asts=asts)
    return (not o.violations), [v[2].get('problem') for v in o.violations]
