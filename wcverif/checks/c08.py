"""C08 - translate returns regexes that mean exactly what match does (placeholder: differential only)."""
import re
from .. import util
from ..util import F, G


def derive_names(p):
    if isinstance(p, bytes):
        p = p.decode('latin-1')
    plain = re.sub(r'[\\!?*@+()\[\]|{}]', '', p)
    return [n for n in (p, plain, plain[:1] or 'a', 'a') if n]


def differential(p, fn_names, gl_names, names=None):
    """translate() regexes vs fnmatch()/globmatch() on concrete names; returns problem dicts (C10 format)."""
    problems = []
    if names is None:
        names = derive_names(p)
    isb = isinstance(p, bytes)
    for mode, mod, flnames, table in (('fn', F, fn_names, util.FN_FLAGS), ('gl', G, gl_names, util.GL_FLAGS)):
        fl = util.flags_of([n for n in flnames if n != 'REALPATH'], table)
        try:
            inc, exc = mod.translate(p, flags=fl)
            inc = [re.compile(r) for r in inc]
            exc = [re.compile(r) for r in exc]
        except Exception:
            continue
        for nm in names:
            nmx = nm.encode('latin-1', 'replace') if isb else nm
            try:
                got = (mod.fnmatch if mode == 'fn' else mod.globmatch)(nmx, p, flags=fl)
            except Exception:
                continue
            want = any(r.fullmatch(nmx) for r in inc) and not any(r.fullmatch(nmx) for r in exc)
            if bool(got) != bool(want):
                problems.append({'entry': ('fnmatch' if mode == 'fn' else 'glob') + '.translate-vs-match',
                                 'bucket': ['MISMATCH', mode, 'translate=%s match=%s' % (want, got)],
                                 'pattern': p if not isb else p.decode('latin-1'), 'flags': list(flnames), 'name': nm})
                break
    return problems
