"""C19 - results never depend on call history, caching, sharing or threads."""
import os
import sys
import copy
import json
import pickle
import itertools
import threading
import subprocess

from ..runner import Outcome, HarnessError
from .. import trees as T, fscommon as FC, util, VERIF_DIR
from ..util import F, G, WCP

PROPERTY = 'C19'
RULE = ('history = sequence of calls drawn from a pool of (function, pattern, flags, name) descriptors built to collide in the cache key '
        'space (same pattern text under different flags, str and bytes twins, translate and compile of the same pattern, > 256 distinct '
        'patterns to force eviction), 70%% of the draws from a hot set of <= 40 descriptors; a Hypothesis rule-based state machine '
        'interleaves calls with cache_clear(), keeping / reusing / pickling / copying compiled matchers; oracle: the baseline table '
        '(every descriptor evaluated alone with the cache cleared; for the hot set additionally in a fresh interpreter with another '
        'hash seed) - every result in every history must equal its table entry; matcher objects: == and hash agree with "built from '
        'the same arguments", equal matchers agree on all names, setattr raises, pickle/copy/deepcopy preserve ==, hash and answers; '
        'the pool is also executed on 8 threads with a tiny switch interval (stress, schedule not owned); non-trivial = a history '
        'with a cache hit on a key whose text also occurs under another flag set/type, or an eviction (measured with cache_info()); '
        'evaluations = calls compared')
ASSUMPTIONS = ['the threaded part is a stress run: the interleaving is not controlled by the harness',
               'glob() descriptors run on one fixed tree that is not modified during the run']

PATS = ['*.txt', '*.TXT', 'a*', '[ab]?', '@(a|b)*', '!(a)', '**/a', '**', 'a/**/b', '*', '?', '.*', 'a', 'A', '+(a)b', 'a|b', '{a,b}c', '\\x41',
        '!a', '-a', '*/', 'b/', '[[:alpha:]]', '*(a|b)', 'a/*', '***']
FLAGSETS_FN = [0, F.I, F.C, F.D, F.E, F.E | F.D, F.S, F.B, F.N | F.A, F.R, F.W, F.U, F.N | F.M | F.A, F.E | F.S | F.N, F.W | F.R, F.I | F.C]
FLAGSETS_GL = [0, G.G, G.G | G.D, G.X, G.X | G.G, G.E | G.G, G.N | G.M | G.A, G.I, G.W, G.GL | G.L, G.O, G.Z | G.D]
NAMES = ['a', 'A', 'a.txt', 'A.TXT', '.a', 'a/b', 'b/a', 'x/y/a', 'ab', 'p7x', 'Ac', 'b/']
TREE = T.CATALOGUE[2]


def build_pool():
    hot = []
    for p in PATS[:10]:
        for fl in (0, F.E, F.D, F.I):
            hot.append(('fn', p, fl, 'a.txt'))
        hot.append(('fnb', p, 0, 'a.txt'))
        hot.append(('ft', p, F.E, None))
        hot.append(('gm', p, G.G, 'x/y/a'))
        hot.append(('gt', p, G.G, None))
    hot = hot[:34]
    # the same escape text under RAWCHARS and not, with and without the Windows normalisation pass
    hot += [('fn', '\\x41', F.W, 'x41'), ('fn', '\\x41', F.W | F.R, 'A'), ('fn', '\\x2a', F.W | F.R, 'zz'), ('fn', '\\x2a', F.W, 'x2a'),
            ('gm', '\\x41', G.W, 'x41'), ('gm', '\\x41', G.W | G.R, 'A'), ('fnb', '\\x41', F.W | F.R, 'A'), ('fnb', '\\x41', F.W, 'x41'),
            ('fn', '\\x41', F.R, 'A'), ('fn', '\\x41', 0, 'x41')]
    # texts that split differently with and without path semantics (a bar after a separator inside a bracket), asked through both
    hot += [('fn', '[a/|b]', F.S, 'b]'), ('gm', '[a/|b]', G.S, 'b]'), ('fn', '[a/|b]', F.S, '|'), ('gm', '[a/|b]', G.S, '[a/'),
            ('fn', '[a\\\\|b]', F.S | F.W, 'b]'), ('gm', '[a\\\\|b]', G.S | G.W, 'b]'), ('gm', 'x|[a/|b]', G.S, 'x'), ('fn', 'x|[a/|b]', F.S, '/')]
    # the same exclude= patterns under flag sets that differ in a flag acting on the exclusion side only (NODIR, DOTGLOB, ...)
    hot += [('gmx', '*', G.O, 'a/'), ('gmx', '*', 0, 'a/'), ('gmx', '*', G.O, 'a'), ('gmx', '*', 0, 'a'), ('gmx', '**', G.G | G.O, 'x/y/'),
            ('gmx', '**', G.G, 'x/y/'), ('gmx', '*', G.O | G.D, '.a/'), ('gmx', '*', G.D, '.a/'), ('fnx', '*', 0, 'ba'), ('fnx', '*', F.I, 'Ba'),
            ('fnx', '*', 0, 'Ba'), ('gmx', '*/', G.O, 'a/'), ('gmx', '*/', 0, 'a/'), ('gtx', '*', G.O, None), ('gtx', '*', 0, None)]
    pool = []
    for p in PATS:
        for fl in FLAGSETS_FN:
            for nm in NAMES[:6]:
                pool.append(('fn', p, fl, nm))
            pool.append(('fnb', p, fl, 'a.txt'))
            pool.append(('ft', p, fl, None))
            pool.append(('ftb', p, fl, None))
            pool.append(('fc', p, fl, 'a'))
        for fl in FLAGSETS_GL:
            for nm in NAMES[5:10]:
                pool.append(('gm', p, fl, nm))
            pool.append(('gmb', p, fl, 'b/a'))
            pool.append(('gt', p, fl, None))
            pool.append(('gg', p, fl, None))
    filler = []
    for i in range(300):
        filler.append(('fn', 'p%d*' % i, 0, 'p7x'))
        filler.append(('gm', 'q%d/*' % i, G.G, 'q7/x'))
    return hot, pool, filler


def call(d, root):
    kind, p, fl, nm = d
    try:
        if kind == 'fn':
            return F.fnmatch(nm, p, flags=fl)
        if kind == 'fnb':
            return F.fnmatch(nm.encode(), p.encode(), flags=fl)
        if kind == 'fc':
            return F.compile(p, flags=fl).match(nm)
        if kind == 'ft':
            return F.translate(p, flags=fl)
        if kind == 'ftb':
            return F.translate(p.encode(), flags=fl)
        if kind == 'gm':
            return G.globmatch(nm, p, flags=fl)
        if kind == 'gmb':
            return G.globmatch(nm.encode(), p.encode(), flags=fl)
        if kind == 'gt':
            return G.translate(p, flags=fl)
        if kind == 'gmx':
            return G.globmatch(nm, p, flags=fl, exclude='b*')
        if kind == 'gtx':
            return G.translate(p, flags=fl, exclude='b*')
        if kind == 'fnx':
            return F.fnmatch(nm, p, flags=fl, exclude='b*')
        if kind == 'gg':
            with util.ScandirCounter(3000):
                return sorted(G.glob(p, flags=fl & ~(G.L), root_dir=root))
    except Exception as e:
        return ('EXC', type(e).__name__)
    raise HarnessError(kind)


def jsonable(v):
    if isinstance(v, bytes):
        return ['b', v.decode('latin-1')]
    if isinstance(v, (list, tuple)):
        return [jsonable(x) for x in v]
    return v


def shards(tier, seed, scale=1.0):
    out = []
    n = 40 if tier == 'quick' else 600
    steps = 80 if tier == 'quick' else 400
    for s in range(12):
        out.append({'name': 'machine-%d' % s, 'kind': 'machine', 'seed': seed * 1000 + s, 'n': max(3, int(n * scale)), 'steps': steps})
    for s in range(4):
        out.append({'name': 'threads-%d' % s, 'kind': 'threads', 'seed': seed * 1000 + 100 + s, 'sweeps': 3 if tier == 'quick' else 60})
    for s in range(4):
        out.append({'name': 'world-%d' % s, 'kind': 'world', 'seed': seed * 1000 + 200 + s, 'n': max(3, int((10 if tier == 'quick' else 150) * scale)),
                    'steps': 40 if tier == 'quick' else 80})
    out.append({'name': 'objects', 'kind': 'objects'})
    out.append({'name': 'fresh', 'kind': 'fresh', 'seed': seed})
    return out


def run_shard(desc):
    return {'machine': run_machine, 'threads': run_threads, 'objects': run_objects, 'fresh': run_fresh, 'world': run_world}[desc['kind']](desc)


def baseline(descs, root):
    table = {}
    for d in descs:
        util.clear_caches()
        table[d] = call(d, root)
    util.clear_caches()
    return table


def run_machine(desc):
    from hypothesis import strategies as st, seed, settings, HealthCheck, Verbosity
    from hypothesis.stateful import RuleBasedStateMachine, rule, precondition, invariant, run_state_machine_as_test
    out = Outcome()
    hot, pool, filler = build_pool()
    with FC.built_tree(TREE) as (root, _r):
        allp = hot + pool + filler
        table = baseline(list(dict.fromkeys(allp)), root)
        texts_multi = {}
        for d in allp:
            texts_multi.setdefault(d[1], set()).add((d[0].rstrip('b') if d[0].endswith('b') else d[0], d[2], d[0].endswith('b')))
        stats = {'hits': 0, 'evictions': 0, 'list_calls': 0}

        class Machine(RuleBasedStateMachine):
            def __init__(self):
                super().__init__()
                self.kept = []
                self.plist = []
                self.history = []
                self.info0 = util.cache_info()
                self.hit_seen = False
                self.evict_seen = False

            def bad(self, d, got):
                out.violation({'history': [list(h) if isinstance(h, tuple) else h for h in self.history[-30:]], 'call': list(d),
                               'got': jsonable(got), 'want': jsonable(table[d]), 'problem': 'result depends on call history'},
                              size=len(self.history), bucket=('history', d[0]))
                raise AssertionError('history dependence')

            def do(self, d):
                before = util.cache_info()
                got = call(d, root)
                after = util.cache_info()
                out.evaluations += 1
                self.history.append(d)
                if after.hits > before.hits and len(texts_multi.get(d[1], ())) > 1:
                    self.hit_seen = True
                if after.currsize == after.maxsize and after.misses > before.misses:
                    self.evict_seen = True
                if got != table[d]:
                    self.bad(d, got)

            @rule(i=st.integers(0, len(hot) - 1))
            def hot_call(self, i):
                self.do(hot[i])

            @rule(i=st.integers(0, len(hot) - 1))
            def hot_call2(self, i):
                self.do(hot[i])

            @rule(i=st.integers(0, len(pool) - 1))
            def pool_call(self, i):
                self.do(pool[i])

            @rule(start=st.integers(0, len(filler) - 1), n=st.integers(1, 300))
            def fill(self, start, n):
                for j in range(n):
                    self.do(filler[(start + j) % len(filler)])

            @rule()
            def clear(self):
                self.history.append('cache_clear')
                util.clear_caches()

            # one list object owned by the caller, edited in place between calls (nothing may remember it by reference)
            @rule(op=st.integers(0, 3), i=st.integers(0, len(PATS) - 1))
            def list_edit(self, op, i):
                if op == 0 and self.plist:
                    self.plist.pop()
                elif op == 1 and self.plist:
                    self.plist[i % len(self.plist)] = PATS[i]
                elif op == 2 and self.plist:
                    self.plist.clear()
                    self.plist.append(PATS[i])
                else:
                    self.plist.append(PATS[i])
                self.history.append(('list_edit', op, PATS[i]))

            @precondition(lambda self: self.plist)
            @rule(n=st.integers(0, 5), f=st.integers(0, 3), via=st.integers(0, 2))
            def list_call(self, n, f, via):
                fl = (0, F.D, F.E, F.I)[f]
                nm = NAMES[n]
                singles = [table.get(('fn', p_, fl, nm)) for p_ in self.plist]
                if any(not isinstance(v, bool) for v in singles):
                    return
                want = any(singles)
                if via == 0:
                    got = F.fnmatch(nm, self.plist, flags=fl)
                elif via == 1:
                    got = bool(F.filter([nm], self.plist, flags=fl))
                else:
                    got = F.compile(self.plist, flags=fl).match(nm)
                out.evaluations += 1
                self.history.append(('list_call', list(self.plist), fl, nm, via))
                stats['list_calls'] += 1
                if bool(got) != want:
                    out.violation({'history': [list(h) if isinstance(h, tuple) else h for h in self.history[-30:]], 'call': ['fn-list', list(self.plist), fl, nm],
                                   'got': bool(got), 'want': want,
                                   'problem': 'a pattern list edited in place between calls is answered from an earlier state of the list'},
                                  size=len(self.history), bucket=('list-alias', via))
                    raise AssertionError('list aliasing')

            @rule(i=st.integers(0, len(PATS) - 1), f=st.integers(0, len(FLAGSETS_FN) - 1), gl=st.booleans())
            def keep(self, i, f, gl):
                try:
                    if gl:
                        fl = FLAGSETS_GL[f % len(FLAGSETS_GL)]
                        m = G.compile(PATS[i], flags=fl)
                        self.kept.append(('gm', PATS[i], fl, m))
                    else:
                        fl = FLAGSETS_FN[f]
                        m = F.compile(PATS[i], flags=fl)
                        self.kept.append(('fn', PATS[i], fl, m))
                    self.history.append(('keep', PATS[i], fl, gl))
                except Exception:
                    pass

            @precondition(lambda self: self.kept)
            @rule(k=st.integers(0, 1000), n=st.integers(0, len(NAMES) - 1), how=st.integers(0, 3))
            def reuse(self, k, n, how):
                kind, p, fl, m = self.kept[k % len(self.kept)]
                if how == 1:
                    m = pickle.loads(pickle.dumps(m))
                elif how == 2:
                    m = copy.copy(m)
                elif how == 3:
                    m = copy.deepcopy(m)
                nm = NAMES[n]
                d = (kind, p, fl, nm)
                want = table.get(d)
                if want is None:
                    util_cache = util.cache_info()
                    want = call(d, root)       # not in the table: evaluate once more (cache state irrelevant for the comparison below)
                got = m.match(nm)
                out.evaluations += 1
                self.history.append(('reuse', p, fl, nm, how))
                if isinstance(want, tuple) and want and want[0] == 'EXC':
                    return
                if bool(got) != bool(want):
                    out.violation({'history': [list(h) if isinstance(h, tuple) else h for h in self.history[-30:]], 'call': [kind, p, fl, nm],
                                   'how': ['direct', 'pickle', 'copy', 'deepcopy'][how], 'got': bool(got), 'want': bool(want),
                                   'problem': 'a kept matcher answers differently from a fresh call'}, bucket=('kept', how))
                    raise AssertionError('kept matcher')

            def teardown(self):
                if self.hit_seen:
                    stats['hits'] += 1
                if self.evict_seen:
                    stats['evictions'] += 1
                if self.hit_seen or self.evict_seen:
                    out.nontrivial(('history', tuple(map(str, self.history[:20])), len(self.history)))

        try:
            run_state_machine_as_test(seed(desc['seed'])(Machine),
                                      settings=settings(max_examples=desc['n'], stateful_step_count=desc['steps'], deadline=None, database=None,
                                                        report_multiple_bugs=False, suppress_health_check=list(HealthCheck),
                                                        verbosity=Verbosity.quiet))
        except Exception:
            # Hypothesis re-raises our AssertionError, or wraps it (FlakyFailure) when process-wide state made the replay differ
            if not out.violations:
                raise
        out.stats['histories_with_colliding_cache_hit'] += stats['hits']
        out.stats['histories_with_eviction'] += stats['evictions']
        out.stats['calls_with_caller_owned_list'] += stats['list_calls']
        out.sample({'kind': 'history', 'pool': len(pool), 'hot': len(hot), 'filler': len(filler), 'histories': desc['n'],
                    'max_steps': desc['steps']})
    return out


def run_threads(desc):
    out = Outcome()
    hot, pool, filler = build_pool()
    import random      # only to derive per-thread orders from the seed: the schedule itself is not owned anyway
    with FC.built_tree(TREE) as (root, _r):
        descs = [d for d in list(dict.fromkeys(hot + pool)) if d[0] != 'gg'] + filler[:100]
        table = baseline(descs, root)
        old = sys.getswitchinterval()
        sys.setswitchinterval(1e-6)
        try:
            for sweep in range(desc['sweeps']):
                errs = []
                util.clear_caches()

                def worker(tid):
                    order = list(descs)
                    random.Random(desc['seed'] * 100 + sweep * 10 + tid).shuffle(order)
                    for d in order[:600]:
                        got = call(d, root)
                        if got != table[d]:
                            errs.append((d, got))
                            return
                ts = [threading.Thread(target=worker, args=(i,)) for i in range(8)]
                for t in ts:
                    t.start()
                for t in ts:
                    t.join()
                out.evaluations += 8 * 600
                out.nontrivial(('threads', desc['seed'], sweep))
                if errs:
                    d, got = errs[0]
                    out.violation({'call': list(d), 'got': jsonable(got), 'want': jsonable(table[d]), 'problem': 'result differs under 8 concurrent threads'},
                                  bucket=('threads', d[0]))
                    break
            # compiled matchers shared by all threads (a matcher "can be reused for any number of match / filter calls"): every
            # thread asks about its own names, which differ from the other threads' in the answer
            shared = [(F.compile('*.txt', flags=0), [('a.txt', True), ('a.py', False), ('b.txt', True), ('txt', False)]),
                      (F.compile(['a*', 'b*'], flags=F.D, exclude='*.py'), [('a.txt', True), ('a.py', False), ('b', True), ('c', False), ('.a', False)]),
                      (G.compile('**/a', flags=G.G), [('x/y/a', True), ('x/y/b', False), ('a', True), ('a/b', False)]),
                      (G.compile('**/a', flags=G.G | G.P), [('d/a', True), ('d/zz', False), ('a', True), ('ld/a', False), ('d/e/b', False), ('.hd/a', False)])]
            for sweep in range(desc['sweeps']):
                errs = []

                def sworker(tid):
                    rnd = random.Random(desc['seed'] * 1000 + sweep * 10 + tid)
                    for _ in range(1500):
                        m_, qa = shared[rnd.randrange(len(shared))]
                        nm, want = qa[(tid + rnd.randrange(len(qa))) % len(qa)]
                        kw = {'root_dir': root} if m_ is shared[3][0] else {}
                        if rnd.random() < 0.2:
                            got = nm in m_.filter([q[0] for q in qa], **kw)
                        else:
                            got = m_.match(nm, **kw)
                        if bool(got) != want:
                            errs.append((nm, bool(got), want))
                            return
                ts = [threading.Thread(target=sworker, args=(i,)) for i in range(8)]
                for t in ts:
                    t.start()
                for t in ts:
                    t.join()
                out.evaluations += 8 * 1500
                out.nontrivial(('threads-shared', desc['seed'], sweep))
                if errs:
                    nm, got, want = errs[0]
                    out.violation({'name': nm, 'got': got, 'want': want, 'problem': 'a compiled matcher shared by 8 threads gave a wrong answer'},
                                  bucket=('threads-shared',))
                    break
        finally:
            sys.setswitchinterval(old)
    out.sample({'kind': 'threads', 'threads': 8, 'calls_per_thread': 600, 'sweeps': desc['sweeps'], 'shared_matchers': 4})
    return out


def run_objects(desc):
    """Matcher objects: immutable, ==/hash by construction arguments, never equal when they behave differently."""
    out = Outcome()
    ms = {}
    for p in PATS:
        for fl in FLAGSETS_FN[:9]:
            for ex in (None, 'b*'):
                try:
                    ms[('fn', p, fl, ex)] = F.compile(p, flags=fl, exclude=ex)
                except Exception:
                    pass
        for fl in FLAGSETS_GL[:8]:
            try:
                ms[('gl', p, fl, None)] = G.compile(p, flags=fl)
            except Exception:
                pass
        for fl in (G.O, 0, G.O | G.G):
            try:
                ms[('gl', p, fl, 'b*')] = G.compile(p, flags=fl, exclude='b*')
            except Exception:
                pass
    keys = list(ms)
    names = NAMES + ['b', 'bb', 'a.b']
    beh = {k: tuple(bool(ms[k].match(n)) for n in names) for k in keys}
    for a, b in itertools.combinations(keys, 2):
        ma, mb = ms[a], ms[b]
        out.evaluations += 1
        if ma == mb:
            if hash(ma) != hash(mb):
                out.violation({'a': list(map(str, a)), 'b': list(map(str, b)), 'problem': 'equal matchers with different hashes'}, bucket=('hash',))
            if beh[a] != beh[b]:
                out.violation({'a': list(map(str, a)), 'b': list(map(str, b)), 'problem': 'matchers compare equal but accept different names'},
                              bucket=('eq-behaviour',))
            if (ma != mb):
                out.violation({'a': list(map(str, a)), 'b': list(map(str, b)), 'problem': '== and != both true'}, bucket=('ne',))
        else:
            if not (ma != mb):
                out.violation({'a': list(map(str, a)), 'b': list(map(str, b)), 'problem': '== and != both false'}, bucket=('ne',))
    for k, m in ms.items():
        out.evaluations += 1
        kind, p, fl, ex = k
        again = F.compile(p, flags=fl, exclude=ex) if kind == 'fn' else (G.compile(p, flags=fl) if ex is None else G.compile(p, flags=fl, exclude=ex))
        m2 = pickle.loads(pickle.dumps(m))
        m3 = copy.deepcopy(m)
        m4 = copy.copy(m)
        for label, o in (('rebuilt', again), ('pickle', m2), ('deepcopy', m3), ('copy', m4)):
            if not (o == m and hash(o) == hash(m)):
                out.violation({'key': list(map(str, k)), 'problem': 'matcher not equal / hash-equal to its %s twin' % label}, bucket=('twin', label))
            if tuple(bool(o.match(n)) for n in names) != beh[k]:
                out.violation({'key': list(map(str, k)), 'problem': 'matcher behaves differently from its %s twin' % label}, bucket=('twin-beh', label))
        for attr in ('_matcher', '_hash', 'x'):
            try:
                setattr(m, attr, None)
                out.violation({'key': list(map(str, k)), 'problem': 'matcher attribute %s could be set' % attr}, bucket=('mutable', attr))
            except (AttributeError, TypeError):
                pass
        inner = m._matcher
        for attr in ('_include', '_exclude', '_real', '_path', '_follow', '_hash'):
            try:
                setattr(inner, attr, None)
                out.violation({'key': list(map(str, k)), 'problem': 'WcRegexp attribute %s could be set' % attr}, bucket=('mutable', attr))
            except (AttributeError, TypeError):
                pass
        # reuse for any number of match / filter calls
        if m.filter(names) != [n for n in names if m.match(n)] or m.filter(names) != m.filter(names):
            out.violation({'key': list(map(str, k)), 'problem': 'filter() differs from repeated match()'}, bucket=('filter',))
        out.nontrivial(('obj',) + tuple(map(str, k)))
    # different flags that change behaviour must not compare equal (exclude / REALPATH / FOLLOW are part of identity)
    pairs = [(F.compile('*', flags=0), F.compile('*', flags=F.D)), (F.compile('a', exclude='a'), F.compile('a')),
             (G.compile('**', flags=G.G), G.compile('**', flags=G.G | G.REALPATH)),
             (G.compile('**', flags=G.G | G.REALPATH), G.compile('**', flags=G.G | G.REALPATH | G.FOLLOW)),
             (F.compile('a'), F.compile(b'a')), (F.compile('a'), G.compile('a'))]
    for i, (x, y) in enumerate(pairs):
        out.evaluations += 1
        if x == y and i != 5:
            out.violation({'pair': i, 'problem': 'matchers built from behaviour-changing different arguments compare equal'}, bucket=('identity', i))
    # matchers that look at the file system (REALPATH, with and without FOLLOW): twins behave alike on paths through symlinks
    link_tree = [('d', 'd'), ('f', 'd/a'), ('d', 'd/e'), ('f', 'd/e/a'), ('l', 'ld', 'd'), ('l', 'lf', 'd/a'), ('l', 'dang', 'nowhere'), ('d', '.h'),
                 ('l', '.h/ld', '../d')]
    rnames = ['d/a', 'ld/a', 'ld/e/a', 'd/e/a', 'lf', 'dang', 'ld', 'd', '.h/ld/a', 'zz', 'ld/', 'd/e/']
    rflags = [G.P | G.G, G.P | G.G | G.L, G.P | G.G | G.L | G.D, G.P, G.P | G.X, G.P | G.X | G.L, G.P | G.G | G.GL, G.P | G.G | G.O, G.P | G.G | G.K]
    with FC.built_tree(link_tree) as (root, _r):
        rms = {}
        for p in ('**/a', '**', 'ld/*', '*/a', 'a', '**/e/*', '*', '***/a', '**/'):
            for fl in rflags:
                rms[(p, fl)] = G.compile(p, flags=fl)
        rbeh = {k: tuple(bool(m.match(n, root_dir=root)) for n in rnames) for k, m in rms.items()}
        for k, m in rms.items():
            out.evaluations += 1
            for label, o in (('rebuilt', G.compile(k[0], flags=k[1])), ('pickle', pickle.loads(pickle.dumps(m))), ('deepcopy', copy.deepcopy(m)),
                             ('copy', copy.copy(m))):
                if not (o == m and hash(o) == hash(m)):
                    out.violation({'key': [k[0], k[1]], 'problem': 'REALPATH matcher not equal / hash-equal to its %s twin' % label}, bucket=('rtwin', label))
                b = tuple(bool(o.match(n, root_dir=root)) for n in rnames)
                if b != rbeh[k]:
                    out.violation({'key': [k[0], k[1]], 'names': rnames, 'twin': list(b), 'original': list(rbeh[k]),
                                   'problem': 'REALPATH matcher behaves differently from its %s twin on paths through symlinks' % label},
                                  bucket=('rtwin-beh', label))
            out.nontrivial(('robj', k[0], k[1]))
        for a, b in itertools.combinations(list(rms), 2):
            out.evaluations += 1
            if rms[a] == rms[b] and rbeh[a] != rbeh[b]:
                out.violation({'a': list(a), 'b': list(b), 'problem': 'REALPATH matchers compare equal but accept different paths'}, bucket=('req',))
        out.stats['realpath_matchers_where_follow_matters'] += sum(
            1 for (p, fl) in rms if fl & G.L and (p, fl & ~G.L) in rms and rbeh[(p, fl)] != rbeh[(p, fl & ~G.L)])
    # what translate() hands out belongs to the caller: emptying or extending the returned lists must not show in a later call with the
    # same arguments (nor in a result handed out earlier to somebody else)
    ntr = 0
    for mod, fsets in ((F, FLAGSETS_FN), (G, FLAGSETS_GL)):
        for p_ in PATS:
            for fl_ in fsets:
                for ex_ in (None, 'b*'):
                    for conv in (lambda x: x, lambda x: x.encode() if isinstance(x, str) else x):
                        kw_ = {} if ex_ is None else {'exclude': conv(ex_)}
                        try:
                            first = mod.translate(conv(p_), flags=fl_, **kw_)
                        except Exception:
                            continue
                        keep = (list(first[0]), list(first[1]))
                        other = mod.translate(conv(p_), flags=fl_, **kw_)
                        first[0].append(conv('junk'))
                        first[1].clear()
                        first[0].reverse()
                        later = mod.translate(conv(p_), flags=fl_, **kw_)
                        out.evaluations += 1
                        ntr += 1
                        if (list(later[0]), list(later[1])) != keep or (list(other[0]), list(other[1])) != keep:
                            out.violation({'call': '%s.translate' % mod.__name__, 'pattern': repr(conv(p_)), 'flags': fl_, 'exclude': ex_,
                                           'problem': 'changing the lists returned by translate() changes what another call with the same arguments returns'},
                                          bucket=('translate-owned',))
    out.nontrivial(('translate-owned', ntr))
    # descriptors: a lazy iglob(dir_fd=...) that is only partly consumed must not touch descriptors the caller opens in the meantime, and
    # two interleaved lazy crawls over descriptors do not disturb each other
    with FC.built_tree(TREE) as (root, _r):
        want_top = sorted(G.glob('*', root_dir=root))
        want_all = sorted(G.glob('**/*', flags=G.GLOBSTAR, root_dir=root))
        for first_n in (1, 2, 5):
            fd_a = os.open(root, os.O_RDONLY)
            fd_b = fd_c = None
            try:
                it = G.iglob('**/*', flags=G.GLOBSTAR, dir_fd=fd_a)
                got = [next(it) for _ in range(min(first_n, len(want_all)))]
                fd_b = os.open(root, os.O_RDONLY)          # gets the lowest free number - one the crawl may have used and closed
                it2 = G.iglob('**/*', flags=G.GLOBSTAR, dir_fd=fd_b)
                got2 = [next(it2)]
                fd_c = os.open(root, os.O_RDONLY)
                got += list(it)
                got2 += list(it2)
                out.evaluations += 3
                problems = []
                for label, fd_ in (('second', fd_b), ('third', fd_c)):
                    try:
                        os.fstat(fd_)
                        if sorted(G.glob('*', dir_fd=fd_)) != want_top:
                            problems.append('glob over the %s descriptor the caller opened during a lazy crawl differs' % label)
                    except OSError:
                        problems.append('the %s descriptor the caller opened during a lazy crawl was closed by it' % label)
                if sorted(got) != want_all or sorted(got2) != want_all:
                    problems.append('interleaved lazy crawls over descriptors return other results than a crawl alone')
                for pr in problems:
                    out.violation({'call': 'iglob(dir_fd=...) consumed lazily', 'taken_before_the_caller_opened_descriptors': first_n, 'problem': pr},
                                  bucket=('descriptors', pr[:30]))
            finally:
                for fd_ in (fd_a, fd_b, fd_c):
                    if fd_ is not None:
                        try:
                            os.close(fd_)
                        except OSError:
                            pass
        out.nontrivial(('descriptors', len(want_all)))
    # a call that is refused (pattern limit) leaves nothing behind: the same text asked again with room to spare is answered as in a
    # fresh interpreter that never saw the refused call
    refused = 0
    for d in REFUSAL_CASES:
        try:
            refusal_answers(d, d[2])
        except Exception as e:
            refused += type(e).__name__ == 'PatternLimitException'
    here = [jsonable(refusal_answers(d, 1000)) for d in REFUSAL_CASES]
    r = subprocess.run([sys.executable, '-c', REFUSAL_SCRIPT % {'verif': VERIF_DIR}], capture_output=True, text=True, timeout=600,
                       env=dict(os.environ, VERIF_REPO=os.environ.get('VERIF_REPO', '/repo')))
    if r.returncode != 0:
        raise HarnessError('fresh interpreter (refusals) failed: ' + r.stderr[-500:])
    there = json.loads([l for l in r.stdout.splitlines() if l.startswith('[')][-1])
    for d, h, t in zip(REFUSAL_CASES, here, there):
        out.evaluations += 1
        if h != t:
            out.violation({'call': list(d), 'after_refused_call': h, 'fresh_interpreter': t,
                           'problem': 'after a call that was refused for the pattern limit, the same pattern is answered differently'}, bucket=('refusal',))
    if refused:
        out.nontrivial(('refusal', refused))
    out.sample({'kind': 'objects', 'matchers': len(ms), 'pairs': len(keys) * (len(keys) - 1) // 2, 'realpath_matchers': len(rms)})
    return out


def isolated(fn, items):
    """fn(item) for every item, each in its own forked child of this (fresh) interpreter: no call sees what another one left behind."""
    res = []
    for it in items:
        r, w = os.pipe()
        pid = os.fork()
        if pid == 0:
            try:
                os.close(r)
                try:
                    data = json.dumps(jsonable(fn(it)))
                except BaseException as e:     # noqa: the child must report, never unwind into the parent's stack
                    data = json.dumps(['CHILD-EXC', type(e).__name__, str(e)[:200]])
                with os.fdopen(w, 'w') as f:
                    f.write(data)
            finally:
                os._exit(0)
        os.close(w)
        with os.fdopen(r) as f:
            data = f.read()
        os.waitpid(pid, 0)
        res.append(json.loads(data) if data else ['CHILD-EXC', 'no output', ''])
    return res


# (kind, pattern, limit that refuses it)
REFUSAL_CASES = [('fn', '{a|b,c|d,e|f}', 3), ('gl', '{a|b,c|d,e|f}', 3), ('fn', '{a,b}|{c,d}|e', 2), ('gl', 'x{1..4}|y|z', 5), ('fn', 'a|b|c|d', 2),
                 ('gl', '{a,b,c}/{d|e}', 4), ('fn', '{p,q}{r|s,t}', 3)]


def refusal_answers(d, limit):
    kind, pat, _l = d
    mod = F if kind == 'fn' else G
    fl = mod.BRACE | mod.SPLIT
    names = ['a', 'b', 'c', 'd', 'e', 'f', 'x1', 'x4', 'y', 'z', 'a/d', 'c/e', 'pr', 'qs', 'pt', 'qt', 'q']
    one = mod.fnmatch if kind == 'fn' else mod.globmatch
    return [[bool(one(n, pat, flags=fl, limit=limit)) for n in names], [list(x) for x in mod.translate(pat, flags=fl, limit=limit)],
            (mod.filter if kind == 'fn' else mod.globfilter)(names, pat, flags=fl, limit=limit)]


REFUSAL_SCRIPT = r'''
import sys, json
sys.path.insert(0, %(verif)r)
from wcverif import bootstrap
bootstrap()
from wcverif.checks import c19
print(json.dumps([c19.jsonable(c19.refusal_answers(d, 1000)) for d in c19.REFUSAL_CASES]))
'''


PICKLE_SCRIPT = r'''
import sys, json, base64, pickle
sys.path.insert(0, %(verif)r)
from wcverif import bootstrap
bootstrap()
from wcmatch import fnmatch as F, glob as G
bad = []
for kind, p, fl, ex, blob in json.load(open(%(path)r)):
    m = pickle.loads(base64.b64decode(blob))
    local = (F if kind == 'fn' else G).compile(p, flags=fl, **({} if ex is None else {'exclude': ex}))
    if not (m == local) or (m != local):
        bad.append([kind, p, fl, ex, 'not equal'])
    elif hash(m) != hash(local):
        bad.append([kind, p, fl, ex, 'hash differs'])
    elif m not in {local} or local not in {m: 1}:
        bad.append([kind, p, fl, ex, 'not found in a set/dict'])
    elif bool(m.match('a')) != bool(local.match('a')) or bool(m.match('x/y/a')) != bool(local.match('x/y/a')):
        bad.append([kind, p, fl, ex, 'behaves differently'])
print(json.dumps(bad))
'''


FRESH_SCRIPT = r'''
import sys, json
sys.path.insert(0, %(verif)r)
from wcverif import bootstrap
bootstrap()
from wcverif.checks import c19
from wcverif import fscommon as FC
hot, pool, filler = c19.build_pool()
sel = [d for d in list(dict.fromkeys(hot + pool[::7]))]
order = list(range(len(sel)))
if %(reverse)r is True:
    order.reverse()
res = {}
with FC.built_tree(c19.TREE) as (root, _r):
    if %(reverse)r == 'isolated':
        res = dict(enumerate(c19.isolated(lambda d: c19.call(d, root), sel)))
    else:
        for i in order:
            res[i] = c19.jsonable(c19.call(sel[i], root))
print(json.dumps([[list(sel[i]), res[i]] for i in range(len(sel))]))
'''


# ---- histories in which the file system and the environment change between calls -------------------------------------------
W_DIRS = ['home1', 'home1/sub', 'home2', 'd', 'd/e', '.hid', 'lnk', 'home3']       # `lnk` / `home3` are symlinks at other times
W_FILES = ['home1/a.txt', 'home1/sub/s.txt', 'home2/b.txt', 'd/a.txt', 'd/e/c.txt', 'top.txt', '.h.txt', '.hid/x.txt', 'd/A.TXT', 'lnk/a.txt']
W_LINKS = [('lnk', 'd'), ('home3', 'home1'), ('d/up', '..'), ('dang', 'nowhere')]
W_HOMES = ['home1', 'home2', 'home3', 'nohome', 'd']
W_CALLS = ([('glob', p, fl) for p in ('~/*.txt', '~', '~/sub/*', '~/**', '*.txt', '**/*.txt', '*/', 'lnk/*', '**', 'd/**/*.txt', '*/*/', 'dang', '[dl]*/a.txt',
                                      'D/A.TXT', '~/../top.txt')
            for fl in (('T', 'G'), ('T', 'G', 'D'), ('T', 'G', 'L'), ('T', 'G', 'I'), ('G',), ('T', 'G', 'O', 'K'))] +
           [('globcwd', p, fl) for p in ('*', '**/*.txt', 'd/*') for fl in (('G',), ('G', 'D', 'L'))] +
           [('gm', nm, p, fl) for nm, p in (('lnk/a.txt', '**/a.txt'), ('lnk/a.txt', 'lnk/*'), ('d/a.txt', '**'), ('d/e', '**/'), ('top.txt', '*.txt'),
                                            ('dang', '*'), ('home1', '*/'), ('d/up/top.txt', '**/top.txt'), ('d/a.txt', '*.txt'), ('lnk/a.txt', '*.txt'))
            for fl in (('G', 'P'), ('G', 'P', 'L'), ('P', 'X'), ('G', 'P', 'O'))] +
           [('gmt', nm, p, fl) for nm, p in (('a.txt', '~/*.txt'), ('b.txt', '~/*.txt')) for fl in (('T', 'P'), ('T',))] +
           # the same pattern text once as an exclusion and once as an inclusion under the same flags (a regex built for one role
           # must never be handed out for the other)
           [('gmx', 'lnk/a.txt', '*/*', '**/a.txt', ('G', 'P', 'D')), ('gm', 'lnk/a.txt', '**/a.txt', ('G', 'P', 'D')),
            ('gmx', 'd/a.txt', '**', '**/a.txt', ('G', 'P', 'D')), ('gm', 'd/a.txt', '**/a.txt', ('G', 'P', 'D')),
            ('gmx', 'lnk/a.txt', '**/a.txt', 'zz*', ('G', 'P', 'D')), ('gmx', 'top.txt', '*', '*.txt', ('P', 'D')), ('gm', 'top.txt', '*.txt', ('P', 'D')),
            ('gmx', 'lnk/e/c.txt', '*/*/*', '**', ('G', 'P', 'D', 'L')), ('gm', 'lnk/e/c.txt', '**', ('G', 'P', 'D', 'L'))] +
           [('wc', fp, fl) for fp in ('*.txt', '*.txt|!a*', '*') for fl in (('RV',), ('RV', 'HD'), ('RV', 'SL'), ())] +
           [('pl', p, fl) for p in ('**/*.txt', '*/a.txt', '~/*.txt') for fl in (('G',), ('G', 'L'), ('G', 'T'))])


def gflags(names):
    v = 0
    for n in names:
        v |= getattr(G, n)
    return v


def world_call(d, root):
    """One call against the current state of the world (`root` tree, HOME, cwd)."""
    from wcmatch import wcmatch as WM, pathlib as PL
    kind = d[0]
    try:
        if kind == 'glob':
            with util.ScandirCounter(5000):
                return sorted(G.glob(d[1], flags=gflags(d[2]), root_dir=root))
        if kind == 'globcwd':
            with util.chdir(root), util.ScandirCounter(5000):
                return sorted(G.glob(d[1], flags=gflags(d[2])))
        if kind == 'gm':
            return G.globmatch(d[1], d[2], flags=gflags(d[3]), root_dir=root)
        if kind == 'gmt':
            return G.globmatch(os.path.join(os.environ.get('HOME', '/nonexistent'), d[1]), d[2], flags=gflags(d[3]))
        if kind == 'gmx':
            return G.globmatch(d[1], d[2], flags=gflags(d[4]), exclude=d[3], root_dir=root)
        if kind == 'wc':
            fl = 0
            for n in d[2]:
                fl |= getattr(WM, n)
            with util.ScandirCounter(5000):
                return sorted(WM.WcMatch(root, d[1], flags=fl).match())
        if kind == 'pl':
            fl = 0
            for n in d[2]:
                fl |= getattr(PL, n)
            with util.ScandirCounter(5000):
                return sorted(str(x) for x in PL.Path(root).glob(d[1], flags=fl))
    except Exception as e:
        return ('EXC', type(e).__name__)
    raise HarnessError(kind)


clear_every_cache = util.clear_caches


WORLD_SCRIPT = r"""
import sys, os, json
sys.path.insert(0, %(verif)r)
import wcverif
wcverif.bootstrap()
from wcverif.checks import c19
calls = json.loads(%(calls)r)
root = %(root)r
tup = lambda d: tuple(tuple(x) if isinstance(x, list) else x for x in d)
if %(reverse)r == 'isolated':
    res = c19.isolated(lambda d: c19.world_call(tup(d), root), calls)
elif %(reverse)r:
    res = [c19.jsonable(c19.world_call(tuple(tuple(x) if isinstance(x, list) else x for x in d), root)) for d in reversed(calls)][::-1]
else:
    res = [c19.jsonable(c19.world_call(tuple(tuple(x) if isinstance(x, list) else x for x in d), root)) for d in calls]
print(json.dumps(res))
"""


def world_apply(root, op):
    """Apply one world mutation; returns False when it does not apply in the current state."""
    import shutil
    k = op[0]
    if k == 'home':
        os.environ['HOME'] = os.path.join(root, op[1])
        return True
    p = os.path.join(root, op[1])
    if k == 'mkdir':
        if os.path.lexists(p) or not os.path.isdir(os.path.dirname(p)):
            return False
        os.mkdir(p)
    elif k == 'rmtree':
        if os.path.islink(p) or not os.path.isdir(p):
            return False
        shutil.rmtree(p)
    elif k == 'touch':
        if os.path.lexists(p) or not os.path.isdir(os.path.dirname(p)):
            return False
        open(p, 'w').close()
    elif k == 'rm':
        if not os.path.isfile(p) or os.path.islink(p):
            return False
        os.unlink(p)
    elif k == 'link':
        if os.path.lexists(p) or not os.path.isdir(os.path.dirname(p)):
            return False
        os.symlink(op[2], p)
    elif k == 'unlink':
        if not os.path.islink(p):
            return False
        os.unlink(p)
    else:
        raise HarnessError(k)
    return True


def world_history(root, history, probe, out=None):
    """Replay a history (mutations and calls) and return the warm answer for `probe` at its end plus the cleared-cache answer."""
    for h in history:
        if h[0] == 'call':
            world_call(tuple(tuple(x) if isinstance(x, list) else x for x in h[1]), root)
        elif h[0] == 'clear':
            clear_every_cache()
        else:
            world_apply(root, h)
    warm = world_call(probe, root)
    clear_every_cache()
    cold = world_call(probe, root)
    return warm, cold


def run_world(desc):
    """State machine over a world that changes between calls: files, directories and symlinks appear and vanish, HOME moves between
    existing and missing directories.  Oracles: (a) the warm answer of every call equals the answer of the same call repeated at once
    with every cache of the package cleared; (b) at the end of each history all descriptors are evaluated warm and compared with two
    fresh interpreters (forward and reverse order) looking at the same final world."""
    from hypothesis import strategies as st, seed, settings, HealthCheck, Verbosity
    from hypothesis.stateful import RuleBasedStateMachine, rule, run_state_machine_as_test
    out = Outcome()
    home0 = os.environ.get('HOME')
    stats = {'mut': 0, 'home': 0, 'fresh': 0}
    muts = ([('mkdir', x) for x in W_DIRS] + [('rmtree', x) for x in W_DIRS] + [('touch', x) for x in W_FILES] + [('rm', x) for x in W_FILES] +
            [('link', a, b) for a, b in W_LINKS] + [('unlink', a) for a, _b in W_LINKS])
    env = dict(os.environ, PYTHONHASHSEED='1', VERIF_REPO=os.environ.get('VERIF_REPO', '/repo'))
    try:
        with util.temp_root() as tmp:
            counter = [0]

            class World(RuleBasedStateMachine):
                def __init__(self):
                    super().__init__()
                    counter[0] += 1
                    self.root = os.path.join(tmp, 'w%d' % counter[0])
                    os.mkdir(self.root)
                    self.history = []
                    self.changed = 0
                    for op in (('mkdir', 'd'), ('touch', 'd/a.txt'), ('touch', 'top.txt'), ('home', 'home1')):
                        world_apply(self.root, op)
                        self.history.append(list(op))
                    clear_every_cache()

                def check(self, d):
                    warm = world_call(d, self.root)
                    self.history.append(['call', jsonable(d)])
                    clear_every_cache()
                    cold = world_call(d, self.root)
                    out.evaluations += 1
                    if warm != cold:
                        out.violation({'world': self.history[-60:], 'call': jsonable(d), 'got': jsonable(warm), 'want': jsonable(cold),
                                       'problem': 'answer differs from the same call with every cache cleared (world changed between calls)'},
                                      size=len(self.history), bucket=('world', d[0]))
                        raise AssertionError('world history dependence')

                @rule(i=st.integers(0, len(muts) - 1))
                def mutate(self, i):
                    if world_apply(self.root, muts[i]):
                        self.history.append(list(muts[i]))
                        self.changed += 1

                @rule(i=st.integers(0, len(W_HOMES) - 1))
                def home(self, i):
                    world_apply(self.root, ('home', W_HOMES[i]))
                    self.history.append(['home', W_HOMES[i]])
                    self.changed += 1
                    stats['home'] += 1

                @rule(i=st.integers(0, len(W_CALLS) - 1))
                def call1(self, i):
                    self.check(W_CALLS[i])

                @rule(i=st.integers(0, len(W_CALLS) - 1), n=st.integers(2, 12))
                def calls(self, i, n):
                    for j in range(n):
                        self.check(W_CALLS[(i + j * 7) % len(W_CALLS)])

                def teardown(self):
                    if self.changed >= 2 and len(self.history) > 8:
                        out.nontrivial(('world', tuple(map(str, self.history[:40]))))
                        stats['mut'] += 1
                    if os.environ.get('HOME', '').startswith(self.root):
                        # (b) fresh interpreters on the final world
                        warm = [jsonable(world_call(d, self.root)) for d in W_CALLS]
                        for reverse in (False, True, 'isolated'):
                            r = subprocess.run([sys.executable, '-c', WORLD_SCRIPT % {'verif': VERIF_DIR, 'calls': json.dumps(jsonable(W_CALLS)),
                                                                                     'root': self.root, 'reverse': reverse}],
                                               capture_output=True, text=True, timeout=600, env=dict(env, HOME=os.environ['HOME']))
                            if r.returncode != 0:
                                raise HarnessError('fresh interpreter failed: ' + r.stderr[-500:])
                            fresh = json.loads([l for l in r.stdout.splitlines() if l.startswith('[')][-1])
                            stats['fresh'] += 1
                            for d, w, f in zip(W_CALLS, warm, fresh):
                                out.evaluations += 1
                                if w != f:
                                    out.violation({'world': self.history[-60:], 'call': jsonable(d), 'got': w, 'want': f, 'reverse_order': reverse,
                                                   'problem': 'answer after a history differs from a fresh interpreter looking at the same world'},
                                                  size=len(self.history), bucket=('world-fresh', d[0]))
                    import shutil
                    shutil.rmtree(self.root, ignore_errors=True)

            try:
                run_state_machine_as_test(seed(desc['seed'])(World),
                                          settings=settings(max_examples=desc['n'], stateful_step_count=desc['steps'], deadline=None, database=None,
                                                            report_multiple_bugs=False, suppress_health_check=list(HealthCheck),
                                                            verbosity=Verbosity.quiet))
            except Exception:
                # Hypothesis re-raises our AssertionError, or wraps it (FlakyFailure) when process-wide state made the replay differ
                if not out.violations:
                    raise
            if desc['name'].endswith('-0'):
                # scripted transitions: every descriptor is answered before and after one change of the world; the answers after the
                # change must be those of a fresh interpreter that never saw the earlier world
                base_ops = [('mkdir', 'd'), ('touch', 'd/a.txt'), ('mkdir', 'd/e'), ('touch', 'd/e/c.txt'), ('touch', 'top.txt'), ('mkdir', 'home1'),
                            ('touch', 'home1/a.txt'), ('home', 'home1')]
                scripts = [
                    ('symlink becomes a directory', [('link', 'lnk', 'd')], [('unlink', 'lnk'), ('mkdir', 'lnk'), ('touch', 'lnk/a.txt')]),
                    ('directory becomes a symlink', [('mkdir', 'lnk'), ('touch', 'lnk/a.txt')], [('rmtree', 'lnk'), ('link', 'lnk', 'd')]),
                    ('HOME starts to exist', [('home', 'home2')], [('mkdir', 'home2'), ('touch', 'home2/b.txt')]),
                    ('HOME stops existing', [], [('rmtree', 'home1')]),
                    ('HOME moves', [], [('home', 'd')]),
                    ('HOME becomes a symlink', [], [('rmtree', 'home1'), ('link', 'home1', 'd')]),
                    ('file appears', [], [('touch', 'd/A.TXT'), ('touch', '.h.txt')]),
                    ('file disappears', [], [('rm', 'd/a.txt'), ('rm', 'top.txt')]),
                    ('dangling link becomes valid', [('link', 'dang', 'nowhere')], [('mkdir', 'nowhere'), ('touch', 'nowhere/a.txt')]),
                    ('link retargeted', [('link', 'lnk', 'd')], [('unlink', 'lnk'), ('link', 'lnk', 'd/e')]),
                    ('directory emptied', [], [('rmtree', 'd'), ('mkdir', 'd')]),
                    ('cycle appears', [], [('link', 'd/up', '..')]),
                ]
                for si, (label, before, after) in enumerate(scripts):
                    root = os.path.join(tmp, 'script%d' % si)
                    os.mkdir(root)
                    clear_every_cache()
                    hist = []
                    for op in base_ops + before:
                        world_apply(root, op)
                        hist.append(list(op))
                    for d in W_CALLS:
                        world_call(d, root)
                    hist.append(['call-all'])
                    for op in after:
                        world_apply(root, op)
                        hist.append(list(op))
                    warm = [jsonable(world_call(d, root)) for d in W_CALLS]
                    # two fresh interpreters, the second one asking in the opposite order: a process-wide memo that is not keyed on
                    # everything the answer depends on shows as a difference between the two orders
                    for reverse in (False, True, 'isolated'):
                        r = subprocess.run([sys.executable, '-c', WORLD_SCRIPT % {'verif': VERIF_DIR, 'calls': json.dumps(jsonable(W_CALLS)), 'root': root,
                                                                                 'reverse': reverse}],
                                           capture_output=True, text=True, timeout=600, env=dict(env, HOME=os.environ['HOME']))
                        if r.returncode != 0:
                            raise HarnessError('fresh interpreter failed: ' + r.stderr[-500:])
                        fresh = json.loads([l for l in r.stdout.splitlines() if l.startswith('[')][-1])
                        stats['fresh'] += 1
                        for d, w, f in zip(W_CALLS, warm, fresh):
                            out.evaluations += 1
                            if w != f:
                                out.violation({'world': hist, 'script': label, 'call': jsonable(d), 'got': w, 'want': f, 'reverse_order': reverse,
                                               'problem': 'answer after a change of the world differs from a fresh interpreter looking at the same world'},
                                              size=len(hist), bucket=('world-script', label))
                    out.nontrivial(('world-script', label))
                    import shutil
                    shutil.rmtree(root, ignore_errors=True)
    finally:
        if home0 is None:
            os.environ.pop('HOME', None)
        else:
            os.environ['HOME'] = home0
    out.stats['world_histories_with_changes'] += stats['mut']
    out.stats['world_home_changes'] += stats['home']
    out.stats['world_fresh_interpreters'] += stats['fresh']
    out.sample({'kind': 'world', 'descriptors': len(W_CALLS), 'mutations': len(muts), 'homes': W_HOMES, 'histories': desc['n'], 'max_steps': desc['steps']})
    return out


def run_fresh(desc):
    """The hot set and a slice of the pool evaluated in a fresh interpreter with a different hash seed."""
    out = Outcome()
    hot, pool, filler = build_pool()
    sel = [d for d in list(dict.fromkeys(hot + pool[::7]))]
    with FC.built_tree(TREE) as (root, _r):
        # this process: evaluate after a long, cache-filling history
        for d in filler + pool[:500]:
            call(d, root)
        here = [jsonable(call(d, root)) for d in sel]
    env = dict(os.environ, PYTHONHASHSEED='1', VERIF_REPO=os.environ.get('VERIF_REPO', '/repo'))
    runs = []
    for reverse in (False, True, 'isolated'):
        r = subprocess.run([sys.executable, '-c', FRESH_SCRIPT % {'verif': VERIF_DIR, 'reverse': reverse}], capture_output=True, text=True,
                           timeout=600, env=env)
        if r.returncode != 0:
            raise HarnessError('fresh interpreter failed: ' + r.stderr[-500:])
        line = [l for l in r.stdout.splitlines() if l.startswith('[')][-1]
        runs.append(json.loads(line))
    there, there_rev, there_iso = runs
    for (d, v), (_d3, v3) in zip(there, there_iso):
        out.evaluations += 1
        if v != v3:
            out.violation({'call': d, 'forward_order': v, 'alone': v3, 'problem': 'result differs from the same call made alone in a fresh interpreter'},
                          bucket=('alone', d[0]))
    for (d, v), h, (_d2, v2) in zip(there, here, there_rev):
        out.evaluations += 2
        if v != h:
            out.violation({'call': d, 'fresh_interpreter': v, 'after_history': h, 'problem': 'result differs from a fresh interpreter'},
                          bucket=('fresh', d[0]))
        if v != v2:
            # the same calls evaluated in the opposite order in another fresh interpreter: any process-wide memo that is not
            # keyed on all arguments shows here even though it survives cache_clear()
            out.violation({'call': d, 'forward_order': v, 'reverse_order': v2, 'problem': 'result depends on the order of earlier calls (fresh interpreters)'},
                          bucket=('order', d[0]))
    # matchers pickled here and loaded in an interpreter with another hash seed: equal and hash-equal to the ones compiled there
    import base64
    import tempfile
    keys = [('fn', p_, fl_, ex_) for p_ in PATS[:12] for fl_ in FLAGSETS_FN[:6] for ex_ in (None, 'b*')] + \
           [('gl', p_, fl_, None) for p_ in PATS[:12] for fl_ in FLAGSETS_GL[:6]] + [('gl', '**/a', G.G | G.P | G.L, None), ('gl', '**', G.G | G.P, 'b*')]
    blobs = []
    for kind_, p_, fl_, ex_ in keys:
        try:
            m_ = (F if kind_ == 'fn' else G).compile(p_, flags=fl_, **({} if ex_ is None else {'exclude': ex_}))
        except Exception:
            continue
        blobs.append([kind_, p_, fl_, ex_, base64.b64encode(pickle.dumps(m_)).decode()])
    with tempfile.NamedTemporaryFile('w', suffix='.json', delete=False) as tf:
        json.dump(blobs, tf)
    try:
        r = subprocess.run([sys.executable, '-c', PICKLE_SCRIPT % {'verif': VERIF_DIR, 'path': tf.name}], capture_output=True, text=True, timeout=600,
                           env=dict(env, PYTHONHASHSEED='4242'))
    finally:
        os.unlink(tf.name)
    if r.returncode != 0:
        raise HarnessError('fresh interpreter (pickles) failed: ' + r.stderr[-500:])
    bad = json.loads([l for l in r.stdout.splitlines() if l.startswith('[')][-1])
    out.evaluations += len(blobs)
    for b_ in bad:
        out.violation({'key': b_[:4], 'what': b_[4], 'problem': 'a matcher pickled in one interpreter is not equal / hash-equal / found in a set '
                       'next to the same matcher compiled in another interpreter'}, bucket=('pickle-cross', b_[4]))
    out.nontrivial(('pickle-cross', len(blobs)))
    out.nontrivial(('fresh', len(sel)))
    out.nontrivial(('fresh-hashseed', 1))
    out.sample({'kind': 'fresh interpreter', 'descriptors': len(sel), 'PYTHONHASHSEED': 1})
    return out


def replay(case):
    util.clear_caches()
    if 'world' in case:
        home0 = os.environ.get('HOME')
        try:
            with util.temp_root() as tmp:
                root = os.path.join(tmp, 'w')
                os.mkdir(root)
                clear_every_cache()
                probe = tuple(tuple(x) if isinstance(x, list) else x for x in case['call'])
                hist = case['world']
                if 'script' in case or 'reverse_order' in case:
                    # warm answer after the recorded history against a fresh interpreter asking every descriptor in the recorded order
                    for h in hist:
                        if h[0] == 'call-all':
                            for d in W_CALLS:
                                world_call(d, root)
                        elif h[0] == 'call':
                            world_call(tuple(tuple(x) if isinstance(x, list) else x for x in h[1]), root)
                        elif h[0] == 'clear':
                            clear_every_cache()
                        else:
                            world_apply(root, h)
                    warm = jsonable(world_call(probe, root))
                    env = dict(os.environ, PYTHONHASHSEED='1', VERIF_REPO=os.environ.get('VERIF_REPO', '/repo'))
                    r = subprocess.run([sys.executable, '-c', WORLD_SCRIPT % {'verif': VERIF_DIR, 'calls': json.dumps(jsonable(W_CALLS)), 'root': root,
                                                                             'reverse': case.get('reverse_order', False)}],
                                       capture_output=True, text=True, timeout=600, env=env)
                    if r.returncode != 0:
                        raise HarnessError('fresh interpreter failed: ' + r.stderr[-500:])
                    fresh = json.loads([l for l in r.stdout.splitlines() if l.startswith('[')][-1])
                    want = fresh[[jsonable(d) for d in W_CALLS].index(jsonable(probe))]
                    return warm == want, {'got': warm, 'want': want}
                if hist and hist[-1] == ['call', case['call']]:
                    hist = hist[:-1]
                warm, cold = world_history(root, hist, probe)
                return warm == cold, {'got': jsonable(warm), 'want': jsonable(cold)}
        finally:
            if home0 is None:
                os.environ.pop('HOME', None)
            else:
                os.environ['HOME'] = home0
    if 'history' in case and case.get('call', [None])[0] == 'fn-list':
        # re-enact the edits on one list object; the answer for the final list must be the union of the single-pattern answers
        plist = []
        got = None
        for h in case['history']:
            if isinstance(h, list) and h and h[0] == 'list_edit':
                op, pat = h[1], h[2]
                if op == 0 and plist:
                    plist.pop()
                elif op == 1 and plist:
                    plist[PATS.index(pat) % len(plist)] = pat
                elif op == 2 and plist:
                    plist.clear()
                    plist.append(pat)
                else:
                    plist.append(pat)
            elif isinstance(h, list) and h and h[0] == 'list_call' and plist:
                _pl, fl, nm, via = h[1], h[2], h[3], h[4]
                if via == 0:
                    got = F.fnmatch(nm, plist, flags=fl)
                elif via == 1:
                    got = bool(F.filter([nm], plist, flags=fl))
                else:
                    got = F.compile(plist, flags=fl).match(nm)
                final = (list(plist), fl, nm)
        if got is None:
            return True, {'note': 'no list call in the history'}
        want = any(F.fnmatch(final[2], p_, flags=final[1]) for p_ in final[0])
        return bool(got) == want, {'got': bool(got), 'want': want, 'list': final[0]}
    if 'history' in case and 'call' in case and 'how' not in case:
        with FC.built_tree(TREE) as (root, _r):
            d = tuple(case['call'])
            util.clear_caches()
            want = call(d, root)
            util.clear_caches()
            for h in case['history']:
                if h == 'cache_clear':
                    util.clear_caches()
                elif isinstance(h, list) and h and h[0] in ('fn', 'fnb', 'fc', 'ft', 'ftb', 'gm', 'gmb', 'gt', 'gg', 'gmx', 'gtx', 'fnx'):
                    call(tuple(h), root)
            got = call(d, root)
            return jsonable(got) == jsonable(want), {'got': jsonable(got), 'want': jsonable(want)}
    o = run_objects({})
    return (not o.violations), [v[2].get('problem') for v in o.violations][:5]
