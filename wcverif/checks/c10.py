"""C10 - every string is an acceptable pattern: no crashes, no invalid regexes.

Streams: (a) exhaustive strings over a metacharacter alphabet and exhaustive token sequences,
(b) Hypothesis: token soups and mutations of valid patterns, str and bytes, random flag subsets, every
public entry point, (c) atheris byte-level fuzzing (fuzz/fuzz_c10.py, driven from here as a sub-process).
Oracle: each call returns or raises a documented exception type; every regex from translate compiles.
"""
import os
import re
import sys
import json
import itertools
import subprocess

from ..runner import Outcome, HarnessError
from .. import util, VERIF_DIR
from ..util import F, G, WM, WP, WCP

PROPERTY = 'C10'
RULE = ('cases = (pattern text, flag set, entry points); exhaustive strings over the alphabet %r up to a length bound and '
        'exhaustive token sequences over %r, plus Hypothesis token soups / mutations of valid patterns (str and bytes, '
        'random subsets of all public flags, every entry point incl. glob()/pathlib/WcMatch on a small tree) and an atheris '
        'campaign; non-trivial = the text has an unbalanced or misplaced bracket/parenthesis/backslash construct or at '
        'least two group openers; distinct = distinct (pattern text) values')
ASSUMPTIONS = [
    'documented exception types: PatternLimitException (only when BRACE/SPLIT can expand), SyntaxError/LookupError (only with '
    'RAWCHARS), TypeError (mixed str/bytes), ValueError (pathlib absolute pattern or foreign-platform flags)',
    'NUL (literal, or decoded by RAWCHARS) is not a valid file-name character: an OS-level "embedded null" ValueError from a file-system or account-database call is not counted as wcmatch behaviour',
]

ALPHA = '!()|[]*?\\-a./'
TOKENS = ['!(', '?(', '*(', '@(', '+(', ')', '|', 'a', '*', '?', '/', '.', '[', ']', '\\', '-']
RULE = RULE % (ALPHA, ' '.join(TOKENS))

FN_CONFIGS = [('EXTMATCH',), ('EXTMATCH', 'DOTMATCH', 'NEGATE', 'SPLIT'), ()]
GL_CONFIGS = [('EXTGLOB', 'GLOBSTAR'), ('EXTGLOB', 'GLOBSTAR', 'DOTGLOB', 'NODOTDIR', 'NEGATE', 'SPLIT', 'MATCHBASE'),
              ('EXTGLOB', 'FORCEWIN', 'GLOBSTARLONG')]
NAMES = ['a', 'a.b/a', '.a']


def nontrivial(p):
    if isinstance(p, bytes):
        p = p.decode('latin-1')
    openers = 0
    depth = 0
    sq = 0
    bad = False
    i = 0
    n = len(p)
    while i < n:
        c = p[i]
        if c == '\\':
            if i + 1 >= n:
                bad = True
            i += 2
            continue
        if c == '(':
            depth += 1
            if i > 0 and p[i - 1] in '!?*@+':
                openers += 1
        elif c == ')':
            depth -= 1
            if depth < 0:
                bad = True
                depth = 0
        elif c == '[':
            sq += 1
        elif c == ']':
            if sq:
                sq -= 1
            else:
                bad = True
        elif c == '|' and depth == 0:
            bad = True
        i += 1
    return bad or depth != 0 or sq != 0 or openers >= 2


class Ctx:
    __slots__ = ('flags', 'mixed', 'pathlib', 'entry', 'nul')

    def __init__(self, flags, entry, mixed=False, pathlib=False, nul=False):
        self.flags = flags
        self.entry = entry
        self.mixed = mixed
        self.pathlib = pathlib
        self.nul = nul


_NUL_ESC = re.compile(r'\\(?:0{1,3}(?![0-7])|x00|u0000|U00000000)')


def nul_possible(pattern, flags):
    if isinstance(pattern, bytes):
        pattern = pattern.decode('latin-1')
    return '\x00' in pattern or bool(flags & G.RAWCHARS and _NUL_ESC.search(pattern))


def allowed(exc, ctx, pattern):
    if isinstance(exc, util.HarnessBudget):
        return True
    if isinstance(exc, ValueError) and 'null' in str(exc) and ctx.nul:
        # a NUL (literal or decoded by RAWCHARS) reached the OS: not wcmatch behaviour (see ASSUMPTIONS)
        return True
    if isinstance(exc, WCP.PatternLimitException):
        return bool(ctx.flags & (G.BRACE | G.SPLIT))
    if isinstance(exc, (SyntaxError, LookupError)):
        return bool(ctx.flags & G.RAWCHARS)
    if isinstance(exc, TypeError):
        return ctx.mixed
    if isinstance(exc, ValueError) and not isinstance(exc, re.error):
        return ctx.mixed or ctx.pathlib
    return False


def check_regexes(res, problems, entry, pattern, flagnames):
    for lst in res:
        for r in lst:
            try:
                re.compile(r)
            except Exception as e:  # re.error, RecursionError, OverflowError
                problems.append({'entry': entry + ':regex-does-not-compile', 'bucket': list(util.exc_bucket(e)) + ['regex'],
                                 'pattern': pattern, 'flags': flagnames})
                return


def guarded(problems, entry, ctx, pattern, flagnames, fn):
    try:
        return fn()
    except RecursionError as e:
        problems.append({'entry': entry, 'bucket': ['RecursionError', '', ''], 'pattern': pattern, 'flags': flagnames})
    except Exception as e:
        if not allowed(e, ctx, pattern):
            problems.append({'entry': entry, 'bucket': list(util.exc_bucket(e)), 'pattern': pattern, 'flags': flagnames})
    return None


def probe_core(p, fn_names, gl_names, names=NAMES):
    """Parser-level probes for one pattern under one fnmatch and one glob flag set."""
    problems = []
    ffl = util.flags_of(fn_names, util.FN_FLAGS)
    gfl = util.flags_of(gl_names, util.GL_FLAGS)
    if isinstance(p, bytes):
        names = [n.encode('latin-1') for n in names]
    cf = Ctx(ffl, 'fn')
    # GLOBTILDE with REALPATH asks the account database during translate()/globmatch(): a NUL (literal or decoded) may reach the OS
    cg = Ctx(gfl, 'gl', nul=nul_possible(p, gfl))
    r = guarded(problems, 'fnmatch.translate', cf, p, fn_names, lambda: F.translate(p, flags=ffl))
    if r is not None:
        check_regexes(r, problems, 'fnmatch.translate', p, fn_names)
    for nm in names[:2]:
        guarded(problems, 'fnmatch.fnmatch', cf, p, fn_names, lambda: F.fnmatch(nm, p, flags=ffl))
    r = guarded(problems, 'glob.translate', cg, p, gl_names, lambda: G.translate(p, flags=gfl))
    if r is not None:
        check_regexes(r, problems, 'glob.translate', p, gl_names)
    for nm in names[1:]:
        guarded(problems, 'glob.globmatch', cg, p, gl_names, lambda: G.globmatch(nm, p, flags=gfl & ~G.REALPATH))
    return problems


_TREE = None


def tiny_tree():
    global _TREE
    if _TREE is None:
        import tempfile
        import atexit
        import shutil
        d = tempfile.mkdtemp(prefix='wcverif-c10-')
        util.build_tree(d, [('f', 'a'), ('f', '.a'), ('d', 'd'), ('f', 'd/a.b'), ('l', 'l', 'd')])
        atexit.register(shutil.rmtree, d, True)
        _TREE = d
    return _TREE


def probe_wide(p, gl_names, wm_names, exclude=None, second=None):
    """File-system and object-level entry points (str or bytes pattern)."""
    problems = []
    gfl = util.flags_of(gl_names, util.GL_FLAGS)
    ffl = util.flags_of([n for n in gl_names if n in util.FN_FLAGS], util.FN_FLAGS)
    root = tiny_tree()
    isb = isinstance(p, bytes)
    if isb:
        root_t = os.fsencode(root)
        nm = b'd/a.b'
    else:
        root_t = root
        nm = 'd/a.b'
    pats = [p] if second is None else [p, second]
    kw = {} if exclude is None else {'exclude': exclude}
    nul = any(v is not None and nul_possible(v, gfl) for v in (p, exclude, second))
    cg = Ctx(gfl, 'gl', nul=nul)
    cf = Ctx(ffl, 'fn', nul=nul)
    fnn = [n for n in gl_names if n in util.FN_FLAGS]
    guarded(problems, 'fnmatch.filter', cf, p, fnn, lambda: F.filter([nm, nm[:1]], pats, flags=ffl, **kw))
    guarded(problems, 'fnmatch.compile', cf, p, fnn, lambda: F.compile(pats, flags=ffl, **kw).match(nm))
    guarded(problems, 'fnmatch.is_magic', cf, p, fnn, lambda: F.is_magic(p, flags=ffl))
    guarded(problems, 'glob.is_magic', cg, p, gl_names, lambda: G.is_magic(p, flags=gfl))
    guarded(problems, 'glob.globfilter', cg, p, gl_names,
            lambda: G.globfilter([nm, nm[:1]], pats, flags=gfl, root_dir=root_t, **kw))
    guarded(problems, 'glob.compile', cg, p, gl_names, lambda: G.compile(pats, flags=gfl, **kw).match(nm, root_dir=root_t))
    ptext = p.decode('latin-1') if isb else p
    fs_ok = '\x00' not in ptext and (exclude is None or '\x00' not in (exclude.decode('latin-1') if isb else exclude))
    if second is not None:
        fs_ok = fs_ok and '\x00' not in (second.decode('latin-1') if isb else second)
    if fs_ok:
        def do_glob():
            with util.ScandirCounter(300):
                return G.glob(pats, flags=gfl, root_dir=root_t, **kw)
        guarded(problems, 'glob.glob', cg, p, gl_names, do_glob)
    if not isb:
        cp = Ctx(gfl, 'pl', pathlib=True, nul=nul)
        pfl = gfl & ~(G.FORCEWIN | G.FORCEUNIX)
        pnames = [n for n in gl_names if n not in ('FORCEWIN', 'FORCEUNIX')]
        for cls in (WP.PurePosixPath, WP.PureWindowsPath):
            guarded(problems, 'pathlib.%s.match' % cls.__name__, Ctx(pfl, 'pl', pathlib=bool(pfl & G.REALPATH)), p, pnames,
                    lambda: cls('d/a.b').match(pats, flags=pfl, **kw))
            guarded(problems, 'pathlib.%s.globmatch' % cls.__name__, Ctx(pfl, 'pl', pathlib=bool(pfl & G.REALPATH)), p,
                    pnames, lambda: cls('d/a.b').globmatch(pats, flags=pfl, **kw))
        if fs_ok:
            def do_pglob(meth):
                def run():
                    with util.ScandirCounter(300):
                        return list(getattr(WP.Path(root), meth)(pats, flags=pfl, **kw))
                return run
            # absolute patterns legitimately raise ValueError here
            guarded(problems, 'pathlib.Path.glob', cp, p, pnames, do_pglob('glob'))
            guarded(problems, 'pathlib.Path.rglob', cp, p, pnames, do_pglob('rglob'))
    if fs_ok:
        wfl = util.flags_of(wm_names, util.WM_FLAGS)
        cw = Ctx(wfl | G.SPLIT, 'wm', nul=nul or any(v is not None and nul_possible(v, wfl) for v in (p, exclude)))

        def do_wm():
            with util.ScandirCounter(300):
                w = WM.WcMatch(root_t, p, exclude if exclude is not None else (b'' if isb else ''), flags=wfl)
                return w.match()
        guarded(problems, 'wcmatch.WcMatch', cw, p, wm_names, do_wm)
    return problems


# --- classification against known findings ------------------------------------------------------------

_K9 = re.compile(r'\[.*-.*\\.-', re.S)


def classify(problem, armed):
    """Return the id of an armed known finding that explains this problem, else None."""
    b = problem['bucket']
    p = problem['pattern']
    if isinstance(p, bytes):
        p = p.decode('latin-1')
    if 'K9' in armed and b[0] == 'error' and 'bad character range' in b[2] and _K9.search(p):
        return 'K9'
    if 'K7' in armed and b[0] == 'error' and ('missing )' in b[2] or 'unbalanced' in b[2] or 'unterminated' in b[2]) \
            and 'EXTMATCH' in problem['flags'] and k7_shape(p):
        return 'K7'
    if 'K11' in armed and b[0] == 'ValueError' and 'RAWCHARS' in problem['flags'] and re.search(r'\\U[0-9a-fA-F]{8}', p) \
            and 'chr()' in b[2]:
        return 'K11'
    return None


def k7_shape(p):
    """A `!(` group followed in the pattern by a group that itself contains a group opener."""
    i = p.find('!(')
    if i < 0:
        return False
    rest = p[i + 2:]
    return re.search(r'[!?*@+]\([^)]*[!?*@+]\(', rest, re.S) is not None


def record(out, problems, armed, case_extra=None):
    for pr in problems:
        fid = classify(pr, armed)
        pr = dict(pr)
        if isinstance(pr['pattern'], bytes):
            pr['pattern_bytes_latin1'] = pr['pattern'].decode('latin-1')
            pr['pattern'] = pr['pattern_bytes_latin1']
            pr['bytes'] = True
        pr['hex'] = pr['pattern'].encode('utf-8', 'surrogatepass').hex()
        if case_extra:
            pr.update(case_extra)
        if fid:
            out.known_hit(fid, pr)
        else:
            out.violation(pr, size=len(pr['pattern']) * 10 + len(pr['flags']), bucket=(pr['bucket'][0], pr['bucket'][1]))


# --- shards -------------------------------------------------------------------------------------------

GROUP_TOKENS = ['!(', '?(', '+(', ')', '|', 'a', '*', '[', ']']
MID_TOKENS = ['!(', '?(', '*(', ')', '|', 'a', '*', '/', '.', '[', ']', '\\', '-']
# the inside of one bracket expression (the enumeration wraps every sequence in `[` ... `]`)
BRACKET_TOKENS = ['-', 'a', 'z', '[:alpha:]', '[:digit:]', '\\-', '!', '^', ']', '\\', '[', '0']


def shards(tier, seed, scale=1.0):
    out = []

    def enum(name, symbols, maxlen, nshards, configs, minlen=1):
        for s in range(nshards):
            out.append({'name': '%s-%d' % (name, s), 'kind': name, 'symbols': symbols, 'shard': s, 'of': nshards,
                        'maxlen': maxlen, 'configs': configs, 'minlen': minlen})
    if tier == 'quick':
        enum('strings', list(ALPHA), 4, 8, 2)
        enum('tokens', TOKENS, 4, 8, 2)
        enum('grouptokens', GROUP_TOKENS, 5, 4, 2)
        enum('grouptokens6', GROUP_TOKENS, 6, 32, 1, 6)
        enum('brackets', BRACKET_TOKENS, 4, 8, 1)
        hyp_n, fuzz_runs, fuzz_shards = 2500, 8000, 4
    else:
        enum('strings', list(ALPHA), 6, 64, 3)
        enum('tokens', TOKENS, 5, 32, 3)
        enum('midtokens', MID_TOKENS, 6, 64, 3)
        enum('grouptokens', GROUP_TOKENS, 7, 64, 3)
        enum('brackets', BRACKET_TOKENS, 6, 64, 2)
        hyp_n, fuzz_runs, fuzz_shards = 40000, 250000, 16
    hyp_n = max(20, int(hyp_n * scale))
    for s in range(16):
        out.append({'name': 'hyp-%d' % s, 'kind': 'hyp', 'seed': seed * 1000 + s, 'n': hyp_n})
    for s in range(fuzz_shards):
        out.append({'name': 'fuzz-%d' % s, 'kind': 'fuzz', 'seed': seed * 100 + s + 1, 'runs': int(fuzz_runs * scale),
                    'empty_corpus': s % 2 == 1})
    # longest jobs first
    out.sort(key=lambda d: 0 if d['kind'] == 'fuzz' else 1)
    return out


def run_shard(desc):
    kind = desc['kind']
    if kind == 'hyp':
        return run_hyp(desc)
    if kind == 'fuzz':
        return run_fuzz(desc)
    return run_enum(desc)


def run_enum(desc):
    """Exhaustive sequences over desc['symbols'] up to desc['maxlen']; a text reachable from several streams is
    evaluated in each, but counted as a distinct non-trivial case only in the first stream that can spell it."""
    out = Outcome()
    out.exhaustive = True
    armed = desc['armed']
    s, S = desc['shard'], desc['of']
    symbols = desc['symbols']
    kind = desc['kind']
    idx = 0
    seen_texts = set()
    multi = any(len(t) > 1 for t in symbols)
    configs = list(zip(FN_CONFIGS, GL_CONFIGS))[:desc['configs']]
    for n in range(desc.get('minlen', 1), desc['maxlen'] + 1):
        for tup in itertools.product(symbols, repeat=n):
            idx += 1
            if idx % S != s:
                continue
            p = ''.join(tup)
            if kind == 'brackets':
                p = '[' + p + ']'
            if multi:
                # different token sequences can spell the same text ('*', '(' vs '*('): evaluate once per shard
                hp = hash(p)
                if hp in seen_texts:
                    continue
                seen_texts.add(hp)
            nt = nontrivial(p)
            if nt:
                out.nontrivial(p)
            for fn_names, gl_names in configs:
                out.evaluations += 1
                problems = probe_core(p, fn_names, gl_names)
                if problems:
                    record(out, problems, armed, {'stream': kind})
            if idx % 50021 == s:
                out.sample({'pattern': p, 'stream': kind, 'nontrivial': nt})
    out.stats['enum_sequences_' + kind] += idx // S
    return out


VALID_SEEDS = [
    '*.txt', '@(a|b)', '!(a)', '*(a|b)c', '+([a-z])', '?(x).y', '**/a', 'a/**/b', '[[:alpha:]]*', '[!a-c]', '[]]', '[a-]',
    '{a,b}c', '{1..3}', 'a|b', '!a', '-a', '\\*', 'a\\/b', '!(a|!(b))', '@(*(a)|?(b))', '**', '***', '/a/b', 'c:/a', '//h/s/a',
    '~', '~root/a', '\\x41', '\\N{DIGIT ONE}', '\\u0041', '\\101', '[\\]]', '@([a)b])', '.', '..', './a', '../a', '.*', '*.',
    '[[:alpha:][:digit:]-z]', '[a-z-9]', '[(?#)]', '[x(?#)]', '[^\\-a]', 'a//b', '@(a/b)', '*(a|b/c)', '!(*.a|*.b)', '+(a)|+(b)', '{a,{b,c}}',
]
SOUP = ['!(', '?(', '*(', '@(', '+(', ')', '|', 'a', 'b', 'A', '*', '**', '***', '?', '/', '//', '.', '..', '[', ']', '[!', '[^', '\\',
        '\\\\', '-', '{', '}', ',', '..', '~', '!', '1', '9', '[:alpha:]', '[:x:]', '\\x', '\\x41', '\\u', '\\N{', '\\N{DIGIT ONE}', '\\N{\ud800}', '\\N{x\udcffy}', '\\N{}',
        '\\U00110000', '\\UFFFFFFFF', '\\U80000000', '\\uD800', '\\UFFFFFFF', '\\xff', '\\0', '\\777', '\n', ' ', '\x00', '\xe9', 'c:', '^', '&', '&&', '||', '~~', '--', '\\/', '\\.', '$', '(?#)', '?:', '#', '(?', '\\Z', '(?i:']
FS_UNSAFE = ('FOLLOW',)


def run_hyp(desc):
    import hypothesis
    from hypothesis import given, strategies as st, seed
    out = Outcome()
    armed = desc['armed']
    gl_flag_names = sorted(n for n in util.GL_FLAGS if n not in ('DOTGLOB', 'EXTGLOB'))
    wm_flag_names = sorted(util.WM_FLAGS)

    soup = st.lists(st.sampled_from(SOUP), min_size=1, max_size=14).map(''.join)

    @st.composite
    def mutated(draw):
        s = draw(st.sampled_from(VALID_SEEDS))
        if draw(st.booleans()):
            s = s + draw(st.sampled_from(VALID_SEEDS))
        toks = list(s)
        for _ in range(draw(st.integers(1, 3))):
            if not toks:
                break
            op = draw(st.integers(0, 3))
            i = draw(st.integers(0, len(toks) - 1))
            if op == 0:
                del toks[i]
            elif op == 1:
                toks.insert(i, toks[i])
            elif op == 2:
                j = draw(st.integers(0, len(toks) - 1))
                toks[i], toks[j] = toks[j], toks[i]
            else:
                toks.insert(i, draw(st.sampled_from(SOUP)))
        return ''.join(toks)

    pat = st.one_of(soup, mutated(), st.text(alphabet=ALPHA + '{},~@+^&\n', min_size=1, max_size=40))
    flagset = st.lists(st.sampled_from(gl_flag_names), max_size=8, unique=True).map(sorted)
    wmflags = st.lists(st.sampled_from(wm_flag_names), max_size=6, unique=True).map(sorted)

    @seed(desc['seed'])
    @util.hyp_settings(desc['n'], shrink=False)
    @given(pat, flagset, wmflags, st.booleans(), st.one_of(st.none(), soup), st.one_of(st.none(), mutated()))
    def test(p, gl_names, wm_names, as_bytes, exclude, second):
        if any(v is not None and '\x00' in v for v in (p, exclude, second)):
            # GLOBTILDE consults the account database / file system, where NUL is an OS-level ValueError
            gl_names = [n for n in gl_names if n != 'GLOBTILDE']
        fn_names = [n for n in gl_names if n in util.FN_FLAGS]
        gl_names = [n for n in gl_names if n not in FS_UNSAFE]
        if as_bytes:
            try:
                pb = p.encode('latin-1')
                eb = exclude.encode('latin-1') if exclude is not None else None
                sb = second.encode('latin-1') if second is not None else None
            except UnicodeEncodeError:
                pb = None
            if pb is not None:
                p, exclude, second = pb, eb, sb
        out.evaluations += 1
        out.stats['bytes' if isinstance(p, bytes) else 'str'] += 1
        if nontrivial(p):
            out.nontrivial(p)
        out.stats['len>12'] += len(p) > 12
        problems = probe_core(p, fn_names, gl_names)
        problems += probe_wide(p, gl_names, wm_names, exclude, second)
        if problems:
            lat = (lambda v: v.decode('latin-1') if isinstance(v, bytes) else v)
            record(out, problems, armed, {'stream': 'hyp', 'exclude_value': lat(exclude), 'second_value': lat(second),
                                          'wm_flags': wm_names})
        if out.evaluations % 97 == 1:
            out.sample({'pattern': repr(p), 'flags': gl_names, 'wm_flags': wm_names, 'exclude': repr(exclude),
                        'second': repr(second), 'stream': 'hyp'})
    test()
    return out


def run_fuzz(desc, want='crash'):
    """Run the atheris target as a sub-process (libFuzzer owns the process); findings come back as JSON lines.
    want='crash': C10's findings (undocumented exceptions, regexes that do not compile);
    want='mismatch': C08's (translate() regexes disagree with the matcher)."""
    out = Outcome()
    target = os.path.join(VERIF_DIR, 'fuzz', 'fuzz_c10.py')
    try:
        sys.path.append(os.path.join(VERIF_DIR, '.deps'))
        import atheris  # noqa: F401
    except Exception as e:
        out.notes.append('atheris unavailable (%s): fuzz sub-check skipped' % type(e).__name__)
        return out
    import tempfile
    import shutil
    work = tempfile.mkdtemp(prefix='wcverif-fuzz-')
    try:
        corpus = os.path.join(work, 'corpus')
        os.makedirs(corpus)
        for i, s in enumerate([] if desc.get('empty_corpus') else VALID_SEEDS):
            with open(os.path.join(corpus, 'seed%d' % i), 'wb') as f:
                f.write(b'\x03\x01' + s.encode('utf-8'))
        report = os.path.join(work, 'report.jsonl')
        env = dict(os.environ, WCVERIF_FUZZ_REPORT=report, WCVERIF_ARMED=','.join(desc['armed']))
        cmd = [sys.executable, target, '-seed=%d' % (desc['seed'] % (2 ** 31) or 1), '-runs=%d' % desc['runs'],
               '-max_len=48', '-timeout=60', '-rss_limit_mb=4096', '-print_final_stats=1', corpus]
        r = subprocess.run(cmd, env=env, capture_output=True, text=True, timeout=3600, cwd=work)
        execs = 0
        m = re.search(r'stat::number_of_executed_units:\s*(\d+)', r.stderr)
        if m:
            execs = int(m.group(1))
        else:
            out.notes.append('fuzz: no final stats (rc=%s): %s' % (r.returncode, r.stderr[-300:]))
        out.evaluations += execs
        out.stats['fuzz_execs'] += execs
        if os.path.exists(report + '.stats'):
            with open(report + '.stats') as f:
                d = json.load(f)
            out.stats['fuzz_nontrivial'] += d['nontrivial']
            out.nt_hashes.update(d['nt_hashes'])
        if os.path.exists(report):
            with open(report) as f:
                for line in f:
                    d = json.loads(line)
                    if (d['bucket'][0] == 'MISMATCH') != (want == 'mismatch'):
                        continue
                    fid = classify(d, desc['armed'])
                    d['stream'] = 'atheris'
                    if fid:
                        out.known_hit(fid, d)
                    else:
                        out.violation(d, size=len(d['pattern']) * 10, bucket=(d['bucket'][0], d['bucket'][1]))
    finally:
        shutil.rmtree(work, ignore_errors=True)
    return out


def replay(case):
    p = case['pattern']
    if case.get('bytes'):
        p = p.encode('latin-1')
    flags = case.get('flags', [])
    fn_names = [n for n in flags if n in util.FN_FLAGS]
    gl_names = [n for n in flags if n in util.GL_FLAGS and n not in FS_UNSAFE]
    util.clear_caches()
    problems = probe_core(p, fn_names, gl_names)
    if case.get('wide', True):
        ex = case.get('exclude_value')
        sec = case.get('second_value')
        if case.get('bytes'):
            ex = ex.encode('latin-1') if ex is not None else None
            sec = sec.encode('latin-1') if sec is not None else None
        problems += probe_wide(p, gl_names, case.get('wm_flags', []), ex, sec)
    return (not problems), [{'entry': x['entry'], 'bucket': x['bucket']} for x in problems[:6]]


def shrink(case):
    """Greedy delta-debugging on the pattern text and the flag list, keeping the same exception bucket."""
    if '_regression_of' in case:
        return case
    target = case['bucket'][0]

    def fails(p, flags):
        c = dict(case, pattern=p, flags=flags)
        ok, detail = replay(c)
        return (not ok) and any(d['bucket'][0] == target for d in detail)
    p, flags = case['pattern'], list(case['flags'])
    if not fails(p, flags):
        return case
    changed = True
    while changed:
        changed = False
        for i in range(len(p)):
            q = p[:i] + p[i + 1:]
            if q and fails(q, flags):
                p = q
                changed = True
                break
        for f in list(flags):
            g = [x for x in flags if x != f]
            if fails(p, g):
                flags = g
                changed = True
    out = dict(case, pattern=p, flags=flags)
    out['hex'] = p.encode('utf-8', 'surrogatepass').hex()
    return out
