"""C20 - RAWCHARS decodes Python-style character escapes and nothing else."""
import re
import itertools
import unicodedata

from ..runner import Outcome, HarnessError
from .. import util
from ..util import F, G, WM

# glob mode: the doubled separator of K28 only shows where the number of separators matters, i.e. inside a UNC-like prefix
# (the pattern starts with a separator and contains an escaped slash)
LEADING_ESC_SLASH = re.compile(r'^(?:/|\\\\|\\/)')

PROPERTY = 'C20'
ALPHA = ['\\', 'x', '4', '1', 'u', 'N', '{', '}', 'a', '7', '/', '*', '0']
RULE = ('case = (pattern text, str|bytes, fnmatch|glob|WcMatch, FORCEWIN on/off); texts: every string up to length 5 (6 thorough) '
        'over %r and Hypothesis strings up to length 20 built from escape prefixes, hex/octal digits, braces, character names, '
        'metacharacters, backslashes and separators; oracle: an independent left-to-right decoder written from the statement - '
        'the call with RAWCHARS must behave as the call on the decoded text without RAWCHARS (regex text from translate() '
        'compared first; when the texts differ, matching is compared on a pool of names derived from the decoded text), '
        'incomplete \\x \\u \\U \\N must raise SyntaxError, unknown \\N{name} a lookup error, and without RAWCHARS `\\x41` must '
        'match "x41" and not "A"; non-trivial = the text contains a complete escape adjacent to a backslash, a digit or a '
        'metacharacter') % (''.join(ALPHA),)
ASSUMPTIONS = ['octal escapes above 0o377 in bytes patterns and \\U values above 0x10FFFF are not judged (which exception is raised)',
               'same interpreter provides unicodedata to both sides']

CTRL = {'a': '\a', 'b': '\b', 'f': '\f', 'n': '\n', 'r': '\r', 't': '\t', 'v': '\v'}
HEX = set('0123456789abcdefABCDEF')
OCT = set('01234567')


class Incomplete(Exception):
    pass


class Unknown(Exception):
    pass


class Undecided(Exception):
    pass


def decode(p, is_bytes):
    """Independent decoder (works on str; bytes patterns are passed as latin-1 text)."""
    out = []
    i, n = 0, len(p)
    while i < n:
        c = p[i]
        if c != '\\':
            out.append(c)
            i += 1
            continue
        if i + 1 >= n:
            out.append(c)
            i += 1
            continue
        d = p[i + 1]
        if d == '\\':
            out.append('\\\\')
            i += 2
        elif d in CTRL:
            out.append(CTRL[d])
            i += 2
        elif d == 'x':
            h = p[i + 2:i + 4]
            if len(h) == 2 and set(h) <= HEX:
                out.append(chr(int(h, 16)))
                i += 4
            else:
                raise Incomplete(i)
        elif d in OCT:
            j = i + 1
            while j < n and j < i + 4 and p[j] in OCT:
                j += 1
            v = int(p[i + 1:j], 8)
            if is_bytes and v > 0xFF:
                raise Undecided(i)
            out.append(chr(v))
            i = j
        elif d == 'u' and not is_bytes:
            h = p[i + 2:i + 6]
            if len(h) == 4 and set(h) <= HEX:
                out.append(chr(int(h, 16)))
                i += 6
            else:
                raise Incomplete(i)
        elif d == 'U' and not is_bytes:
            h = p[i + 2:i + 10]
            if len(h) == 8 and set(h) <= HEX:
                v = int(h, 16)
                if v > 0x10FFFF:
                    raise Undecided(i)
                out.append(chr(v))
                i += 10
            else:
                raise Incomplete(i)
        elif d == 'N' and not is_bytes:
            if p[i + 2:i + 3] == '{':
                j = p.find('}', i + 3)
                if j < 0:
                    raise Incomplete(i)
                name = p[i + 3:j]
                try:
                    out.append(unicodedata.lookup(name))
                except KeyError:
                    raise Unknown(name)
                i = j + 1
            else:
                raise Incomplete(i)
        else:
            out.append(c + d)
            i += 2
    return ''.join(out)


ESC = re.compile(r'\\(x[0-9a-fA-F]{2}|[0-7]{1,3}|u[0-9a-fA-F]{4}|U[0-9a-fA-F]{8}|N\{[^}]*\}|[abfnrtv])')


def nontrivial(p):
    for m in ESC.finditer(p):
        before = p[m.start() - 1:m.start()] if m.start() else ''
        after = p[m.end():m.end() + 1]
        if before == '\\' or after == '\\' or after.isdigit() or after in '*?[]()|{}/' or before in ('*', '[', '(', '/', '{') and before:
            return True
    return False


def pool(decoded):
    plain = decoded.replace('\\', '')
    names = {plain, decoded, plain[:1], plain[1:], 'x41', 'A', 'a', '\\', '/', 'a/b', 'b', 'ab', 'a,c', '4', '3', 'c'}
    for sep in '|,':
        for piece in decoded.split(sep):
            names.add(piece.replace('\\', '').strip('{}()!@'))
    for c in set(plain):
        names.add(c)
    names.discard('')
    return sorted(names)


def call(mode, kind, text, name, fl):
    if mode == 'fn':
        return F.translate(text, flags=fl) if kind == 't' else F.fnmatch(name, text, flags=fl)
    return G.translate(text, flags=fl) if kind == 't' else G.globmatch(name, text, flags=fl)


EXTRA_FLAGS = ['', 'SPLIT', 'BRACE', 'EXTMATCH', 'NEGATE', 'SPLIT|BRACE', 'EXTMATCH|SPLIT', 'DOTMATCH', 'NEGATE|MINUSNEGATE', 'IGNORECASE']


def check(p, is_bytes, mode, win, out, stream, extra=''):
    """p is str; for bytes runs it is encoded latin-1 (only generated when encodable).
    extra: further feature flags - a decoded character that is a metacharacter of one of them must act as one."""
    mod = F if mode == 'fn' else G
    base = (mod.FORCEWIN if win else mod.FORCEUNIX)
    for fname in [x for x in extra.split('|') if x]:
        base |= getattr(mod, fname)
    enc = (lambda s: s.encode('latin-1')) if is_bytes else (lambda s: s)
    case = {'pattern': p, 'hex': p.encode('utf-8', 'surrogatepass').hex(), 'bytes': is_bytes, 'mode': mode, 'win': win, 'stream': stream,
            'extra': extra}
    try:
        want = decode(p, is_bytes)
        expect = 'ok'
    except Incomplete:
        expect = 'syntax'
    except Unknown:
        expect = 'lookup'
    except Undecided:
        out.either += 1
        return
    if expect == 'ok' and is_bytes:
        try:
            want.encode('latin-1')
        except UnicodeEncodeError:
            out.either += 1
            return
    try:
        with util.watchdog(5):
            if (len(p) + sum(map(ord, p))) % 2:
                # for half of the texts the plain call on the very same text comes first in this process: whatever it leaves behind
                # must not change what RAWCHARS does with the text afterwards
                try:
                    call(mode, 't', enc(p), None, base)
                    out.stats['plain_call_first'] += 1
                except Exception:
                    pass
            try:
                got_t = call(mode, 't', enc(p), None, base | mod.RAWCHARS)
                got = 'ok'
            except SyntaxError:
                got = 'syntax'
            except LookupError:
                got = 'lookup'
            out.evaluations += 1
            if got != expect:
                out.violation(dict(case, problem='expected %s, got %s' % (expect, got)), size=len(p), bucket=('exc', expect, got, is_bytes))
                return
            if expect == 'ok':
                ref_t = call(mode, 't', enc(want), None, base)
                if got_t != ref_t:
                    # the regex texts differ: decide on behaviour
                    for nm in pool(want):
                        try:
                            nmx = enc(nm)
                        except UnicodeEncodeError:
                            continue
                        a = call(mode, 'm', enc(p), nmx, base | mod.RAWCHARS)
                        b = call(mode, 'm', enc(want), nmx, base)
                        out.evaluations += 1
                        if bool(a) != bool(b):
                            c = dict(case, decoded=want, name=nm, impl=bool(a), want=bool(b), problem='RAWCHARS differs from decoded pattern')
                            if 'K28' in ARMED and win and '\\/' in want and (mode == 'fn' or LEADING_ESC_SLASH.match(want)):
                                # under Windows rules in fnmatch mode a written `\/` is normalised to TWO escaped backslashes
                                out.known_hit('K28', c)
                                return
                            out.violation(c, size=len(p), bucket=('diff', is_bytes, mode, win))
                            return
                    out.stats['regex_text_differs_but_behaviour_equal'] += 1
                else:
                    out.stats['regex_text_equal'] += 1
    except util.HarnessBudget:
        out.stats['watchdog_skipped'] += 1
        return
    except Exception as e:
        # other exceptions are C10's; here the case is inconclusive
        out.stats['exception_skipped:' + type(e).__name__] += 1
        return
    if nontrivial(p):
        out.nontrivial((p, is_bytes, mode, win))


def check_no_rawchars(p, is_bytes, mode, out):
    """Without RAWCHARS nothing is decoded: a backslash escapes the next character, whatever it is."""
    if any(c in p for c in '*?[]()|{}/!-~+@') or p.endswith('\\') and (len(p) - len(p.rstrip('\\'))) % 2:
        return
    literal = re.sub(r'\\(.)', r'\1', p, flags=re.S)
    if not literal:
        return
    enc = (lambda s: s.encode('latin-1')) if is_bytes else (lambda s: s)
    mod = F if mode == 'fn' else G
    fl = mod.FORCEUNIX
    case = {'pattern': p, 'bytes': is_bytes, 'mode': mode, 'rawchars': False, 'stream': 'no-rawchars'}
    try:
        a = call(mode, 'm', enc(p), enc(literal), fl)
        out.evaluations += 1
        if not a:
            out.violation(dict(case, name=literal, problem='escaped text does not match its literal spelling'), size=len(p),
                          bucket=('noraw-self', is_bytes))
            return
        try:
            dec = decode(p, is_bytes)
        except Exception:
            return
        dec_lit = re.sub(r'\\(.)', r'\1', dec, flags=re.S)
        if dec_lit != literal and dec_lit:
            try:
                b = call(mode, 'm', enc(p), enc(dec_lit), fl)
            except UnicodeEncodeError:
                return
            out.evaluations += 1
            if b:
                out.violation(dict(case, name=dec_lit, problem='escape decoded although RAWCHARS is off'), size=len(p),
                              bucket=('noraw-decoded', is_bytes))
                return
            if nontrivial(p):
                out.nontrivial((p, is_bytes, mode, 'noraw'))
    except Exception as e:
        out.stats['exception_skipped:' + type(e).__name__] += 1


def shards(tier, seed, scale=1.0):
    out = []
    if tier == 'quick':
        S, maxlen, hyp_n = 16, 5, 2500
    else:
        S, maxlen, hyp_n = 64, 6, 8000
    for s in range(S):
        out.append({'name': 'enum-%d' % s, 'kind': 'enum', 'shard': s, 'of': S, 'maxlen': maxlen})
    for s in range(16):
        out.append({'name': 'hyp-%d' % s, 'kind': 'hyp', 'seed': seed * 1000 + s, 'n': max(10, int(hyp_n * scale))})
    out.append({'name': 'wcmatch', 'kind': 'wcmatch'})
    return out


ARMED = set()


def run_shard(desc):
    ARMED.clear()
    ARMED.update(desc.get('armed', []))
    k = desc['kind']
    if k == 'enum':
        return run_enum(desc)
    if k == 'hyp':
        return run_hyp(desc)
    if k == 'wcmatch':
        return run_wcmatch(desc)
    raise HarnessError(k)


def run_enum(desc):
    out = Outcome()
    out.exhaustive = True
    s, S = desc['shard'], desc['of']
    idx = 0
    for n in range(1, desc['maxlen'] + 1):
        # the full 13-symbol alphabet up to length 5, the 10-symbol escape core beyond
        alpha = ALPHA if n <= 5 else ALPHA[:10]
        for tup in itertools.product(alpha, repeat=n):
            idx += 1
            if idx % S != s:
                continue
            p = ''.join(tup)
            if '\\' not in p:
                continue
            is_bytes = idx % 2 == 0
            mode = 'gl' if (idx // 2) % 2 else 'fn'
            win = (idx // 4) % 4 == 0
            check(p, is_bytes, mode, win, out, 'enum', extra=EXTRA_FLAGS[(idx // 16) % len(EXTRA_FLAGS)])
            if idx % 3 == 0:
                check_no_rawchars(p, is_bytes, mode, out)
            if idx % 9001 == s:
                out.sample({'pattern': p, 'bytes': is_bytes, 'mode': mode, 'win': win, 'stream': 'enum'})
    return out


PIECES = ['\\', '\\\\', '\\x', '\\x4', '\\x41', '\\x2a', '\\x5c', '\\x2f', '\\u', '\\u00', '\\u0041', '\\u002A', '\\U', '\\U0000004',
          '\\U00000041', '\\U0001F600', '\\UFFFFFFFF', '\\U00110000', '\\U80000000', '\\N', '\\N{', '\\N{}', '\\N{DIGIT ONE}', '\\N{LATIN SMALL LETTER A}', '\\N{NO SUCH NAME}',
          '\\N{ASTERISK}', '\\a', '\\b', '\\f', '\\n', '\\r', '\\t', '\\v', '\\0', '\\7', '\\52', '\\101', '\\1010', '\\377', '\\400', '\\8',
          '\\x7c', '\\174', '\\x7b', '\\x7d', '\\x2c', '\\x21', '\\x28', '\\x29', '\\x2d', '\\N{VERTICAL LINE}', '\\x40', ',',
          '\\/', '/', '*', '?', '[', ']', '(', ')', '@(', '|', '{', '}', 'a', 'A', '1', '4', '.', '-', '!', 'x', 'u', 'N', '\\c', '\\.', '\\*']


def run_hyp(desc):
    from hypothesis import given, strategies as st, seed
    out = Outcome()

    @seed(desc['seed'])
    @util.hyp_settings(desc['n'], shrink=False)
    @given(st.lists(st.sampled_from(PIECES), min_size=1, max_size=8).map(''.join), st.booleans(), st.sampled_from(['fn', 'gl']), st.booleans(),
           st.booleans(), st.sampled_from(EXTRA_FLAGS))
    def test(p, is_bytes, mode, win, noraw, extra):
        if len(p) > 40:
            return
        out.stats['hyp_cases'] += 1
        if noraw:
            check_no_rawchars(p, is_bytes, mode, out)
        else:
            check(p, is_bytes, mode, win, out, 'hyp', extra=extra)
        if out.stats['hyp_cases'] % 97 == 1:
            out.sample({'pattern': p, 'bytes': is_bytes, 'mode': mode, 'win': win, 'stream': 'hyp'})
    test()
    return out


def run_wcmatch(desc):
    """WcMatch file patterns go through the same decoder."""
    out = Outcome()
    # escapes that decode to surrogates, next to each other: each escape stands for its own code point (a high surrogate followed by a low
    # one is two characters, not the astral character the pair would encode in UTF-16)
    for p_ in ('\\ud83d\\ude00', '[\\ud83d\\ude00]', '\\U0000d83d\\U0000de00', '\\ud83d\\ude00x', 'a\\ud83d\\ude00', '\\ude00\\ud83d', '\\ud83d\\x41',
               '\\ud83d*\\ude00', '\\ud800\\udc00', '\\udbff\\udfff'):
        for mode_ in ('fn', 'gl'):
            for win_ in (False, True):
                check(p_, False, mode_, win_, out, 'surrogates')
    import os
    with util.temp_root() as root:
        names = ['A', 'x41', 'a b', '*', 'a1', '1', 'n', '101', 'xyz']
        util.build_tree(root, [('f', n) for n in names])
        for p in ['\\x41', '\\101', '\\u0041', '\\N{DIGIT ONE}', '\\x2a', '\\\\x41', 'a\\x20b', '\\x41|\\x31', '[\\x41-\\x42]', '\\N{LATIN SMALL LETTER A}1']:
            dec = decode(p, False)
            a = sorted(os.path.basename(x) for x in WM.WcMatch(root, p, flags=WM.RAWCHARS).match())
            b = sorted(os.path.basename(x) for x in WM.WcMatch(root, dec).match())
            out.evaluations += 1
            out.nontrivial(('wcmatch', p))
            if a != b:
                out.violation({'pattern': p, 'mode': 'wcmatch', 'decoded': dec, 'impl': a, 'want': b, 'problem': 'WcMatch RAWCHARS differs'},
                              bucket=('wcmatch',))
        # the file-system walker: inclusion, inline exclusion and exclude= patterns all go through the decoder, str and bytes
        from ..util import WP
        for p in ['\\x41', '\\101', '\\u0041', '\\N{DIGIT ONE}', '\\x2a', 'a\\x20b', '[\\x41-\\x42]', '\\x41*', '\\x61\\x31',
                  # an escape that decodes to a backslash, followed by text that would itself read as an escape: decoded ONCE
                  '\\x5cx41', '\\134n', '\\u005c101', '\\N{REVERSE SOLIDUS}xyz', '\\x5c\\x5cx41']:
            dec = decode(p, False)
            for how in ('include', 'exclude=', 'inline', 'exclude-list', 'pathlib-exclude', 'bytes-exclude'):
                out.evaluations += 1
                try:
                    if how == 'include':
                        a = sorted(G.glob(p, flags=G.RAWCHARS, root_dir=root)); b = sorted(G.glob(dec, root_dir=root))
                    elif how == 'exclude=':
                        a = sorted(G.glob('*', flags=G.RAWCHARS, exclude=p, root_dir=root)); b = sorted(G.glob('*', exclude=dec, root_dir=root))
                    elif how == 'inline':
                        a = sorted(G.glob(['*', '!' + p], flags=G.RAWCHARS | G.NEGATE, root_dir=root))
                        b = sorted(G.glob(['*', '!' + dec], flags=G.NEGATE, root_dir=root))
                    elif how == 'exclude-list':
                        a = sorted(G.glob('*', flags=G.RAWCHARS, exclude=['zz', p], root_dir=root)); b = sorted(G.glob('*', exclude=['zz', dec], root_dir=root))
                    elif how == 'pathlib-exclude':
                        a = sorted(str(x) for x in WP.Path(root).glob('*', flags=G.RAWCHARS, exclude=p))
                        b = sorted(str(x) for x in WP.Path(root).glob('*', exclude=dec))
                    else:
                        if not p.isascii() or 'N{' in p or '\\u' in p:
                            continue
                        a = sorted(G.glob(b'*', flags=G.RAWCHARS, exclude=p.encode(), root_dir=os.fsencode(root)))
                        b = sorted(G.glob(b'*', exclude=dec.encode('latin-1'), root_dir=os.fsencode(root)))
                except Exception as e:
                    out.violation({'pattern': p, 'mode': 'glob', 'how': how, 'decoded': dec, 'problem': 'glob() with RAWCHARS raised ' + type(e).__name__},
                                  bucket=('glob-exc', how))
                    continue
                out.nontrivial(('glob', p, how))
                if a != b:
                    out.violation({'pattern': p, 'mode': 'glob', 'how': how, 'decoded': dec, 'impl': [str(x) for x in a][:8], 'want': [str(x) for x in b][:8],
                                   'problem': 'glob() with RAWCHARS differs from glob() of the decoded pattern'}, bucket=('glob', how))
        for how in ('exclude=', 'include'):
            out.evaluations += 1
            try:
                if how == 'include':
                    G.glob('\\x4', flags=G.RAWCHARS, root_dir=root)
                else:
                    G.glob('*', flags=G.RAWCHARS, exclude='\\x4', root_dir=root)
                out.violation({'pattern': '\\x4', 'mode': 'glob', 'how': how, 'problem': 'an incomplete escape did not raise SyntaxError in glob()'},
                              bucket=('glob-syntax', how))
            except SyntaxError:
                pass
    out.sample({'pattern': '\\x41', 'mode': 'wcmatch'})
    return out


def replay(case):
    util.clear_caches()
    o = Outcome()
    if case.get('mode') in ('wcmatch', 'glob'):
        r = run_wcmatch({})
        return (not r.violations), [v[2] for v in r.violations][:3]
    if case.get('rawchars') is False:
        check_no_rawchars(case['pattern'], case['bytes'], case['mode'], o)
    else:
        check(case['pattern'], case['bytes'], case['mode'], case['win'], o, 'replay', extra=case.get('extra', ''))
    return (not o.violations), [v[2].get('problem') for v in o.violations]
