"""C18 - bytes and str inputs behave identically."""
import os
import itertools

from .. import fscommon as FC
from ..runner import Outcome, HarnessError
from .. import ast as A, ref as R, names as N, lang, util
from ..util import F, G, WM
from . import c02

PROPERTY = 'C18'
RULE = ('case = one API call made twice, with str arguments and with the same arguments encoded as bytes; streams: every fnmatch-mode '
        'AST of token budget 3 and every 1-3 segment path pattern of budget 3 (filter results over all names up to length 3-4 over '
        'the minterm representatives, translate() output, escape()), Hypothesis pattern lists with exclusions and random flags '
        '(incl. RAWCHARS, IGNORECASE, SPLIT, BRACE, NEGATE), every byte 0x80-0xFF against every POSIX class / bracket form / ? / * '
        '(judged by the C-locale reference restricted to Latin-1), glob()/iglob()/WcMatch on small trees with str vs bytes roots '
        '(same elements, same order), and mixed-type calls, which must raise TypeError; evaluations = twin pairs compared; '
        'non-trivial = the pattern has a set/POSIX class or an extended group, or the call touches the file system')
ASSUMPTIONS = ['translate(bytes) is compared textually with the encoded str regex only when the str regex is ASCII (POSIX classes expand to different tables by design; those are compared by behaviour)',
               'file names on disk are ASCII']


def enc(x):
    if x is None:
        return None
    if isinstance(x, (list, tuple)):
        return [enc(y) for y in x]
    return x.encode('latin-1')


def twin_filter(mode, text, names, fl, out, case, excl=None):
    mod = F if mode == 'fn' else G
    filt = F.filter if mode == 'fn' else G.globfilter
    kw = {} if excl is None else {'exclude': excl}
    kwb = {} if excl is None else {'exclude': enc(excl)}
    a = filt(names, text, flags=fl, **kw)
    b = filt(enc(names), enc(text), flags=fl, **kwb)
    out.evaluations += len(names)
    if enc(a) != b:
        diff = sorted(set(enc(a)) ^ set(b))
        out.violation(dict(case, problem='filter differs', name=diff[0].decode('latin-1') if diff else None, str_count=len(a), bytes_count=len(b)),
                      size=len(str(text)) * 10, bucket=('filter', mode))
        return False
    ts = mod.translate(text, flags=fl, **kw)
    tb = mod.translate(enc(text), flags=fl, **kwb)
    out.evaluations += 1
    for ls, lb in zip(ts, tb):
        if len(ls) != len(lb):
            out.violation(dict(case, problem='translate list lengths differ'), size=len(str(text)) * 10, bucket=('translate-len', mode))
            return False
        for rs, rb in zip(ls, lb):
            if rs.isascii() and rs.encode('latin-1') != rb:
                out.violation(dict(case, problem='translate(bytes) is not the encoded str regex', str_regex=rs, bytes_regex=rb.decode('latin-1')),
                              size=len(str(text)) * 10, bucket=('translate', mode))
                return False
    return True


def shards(tier, seed, scale=1.0):
    out = []
    if tier == 'quick':
        S, fb, pb, hyp_n = 8, 3, 3, 200
    else:
        S, fb, pb, hyp_n = 48, 4, 4, 3000
    for s in range(S):
        out.append({'name': 'fn-enum-%d' % s, 'kind': 'fn-enum', 'shard': s, 'of': S, 'budget': fb})
        out.append({'name': 'path-enum-%d' % s, 'kind': 'path-enum', 'shard': s, 'of': S, 'budget': pb})
    for s in range(16):
        out.append({'name': 'hyp-%d' % s, 'kind': 'hyp', 'seed': seed * 1000 + s, 'n': max(8, int(hyp_n * scale))})
    out.append({'name': 'highbytes', 'kind': 'highbytes'})
    out.append({'name': 'mixed', 'kind': 'mixed'})
    for s in range(4):
        out.append({'name': 'fs-%d' % s, 'kind': 'fs', 'seed': seed * 1000 + 500 + s, 'n': max(8, int((60 if tier == 'quick' else 900) * scale))})
    return out


def run_shard(desc):
    k = desc['kind']
    return {'fn-enum': run_fn_enum, 'path-enum': run_path_enum, 'hyp': run_hyp, 'highbytes': run_highbytes, 'mixed': run_mixed,
            'fs': run_fs}[k](desc)


def run_fn_enum(desc):
    out = Outcome()
    out.exhaustive = True
    s, S = desc['shard'], desc['of']
    idx = 0
    cfgs = [F.EXTMATCH, F.EXTMATCH | F.DOTMATCH, F.EXTMATCH | F.IGNORECASE, F.EXTMATCH | F.FORCEWIN, 0]
    for seq in A.enum_upto(desc['budget'], A.atoms_default((A.mkset(False, ('p', 'alpha')),))):
        idx += 1
        if idx % S != s:
            continue
        text = A.render(seq)
        alpha, _c = N.representatives([seq], extra='.', cap=4)
        names = [n for n in N.all_names(alpha, 3)]
        fl = cfgs[idx % len(cfgs)]
        case = {'mode': 'fn', 'pattern': text, 'flags': fl, 'stream': 'fn-enum'}
        try:
            with util.watchdog(5):
                twin_filter('fn', text, names, fl, out, case)
                if F.escape(text).encode('latin-1') != F.escape(text.encode('latin-1')):
                    out.violation(dict(case, problem='escape differs'), bucket=('escape', 'fn'))
        except util.HarnessBudget:
            out.stats['watchdog_skipped'] += 1
            continue
        if A.has_ext(seq) or any(n[0] == 'set' for n in A.walk(seq)):
            out.nontrivial(('fn', text, fl))
        if idx % 1999 == s:
            out.sample(case)
    return out


def run_path_enum(desc):
    out = Outcome()
    out.exhaustive = True
    s, S = desc['shard'], desc['of']
    idx = 0
    cfgs = [G.EXTGLOB, G.EXTGLOB | G.GLOBSTAR | G.DOTGLOB, G.EXTGLOB | G.GLOBSTAR | G.MATCHBASE, G.EXTGLOB | G.NODIR | G.NODOTDIR,
            G.EXTGLOB | G.FORCEWIN | G.GLOBSTARLONG, G.EXTGLOB | G.IGNORECASE]
    for segs in c02.enum_pathpats(desc['budget']):
        idx += 1
        if idx % S != s:
            continue
        seqs = [x for x in segs if not isinstance(x, str)]
        alpha, _c = N.representatives(seqs, extra='.', cap=3)
        paths = list(N.all_names(alpha + '/', 4))
        for pp in c02.variants(segs, idx):
            text = A.render_path(pp)
            fl = cfgs[idx % len(cfgs)]
            case = {'mode': 'gl', 'pattern': text, 'flags': fl, 'stream': 'path-enum'}
            try:
                with util.watchdog(5):
                    twin_filter('gl', text, paths, fl, out, case)
                    if G.escape(text).encode('latin-1') != G.escape(text.encode('latin-1')) or \
                            G.escape(text, unix=False).encode('latin-1') != G.escape(text.encode('latin-1'), unix=False):
                        out.violation(dict(case, problem='escape differs'), bucket=('escape', 'gl'))
            except util.HarnessBudget:
                out.stats['watchdog_skipped'] += 1
                continue
            if any(A.has_ext(x) or any(n[0] == 'set' for n in A.walk(x)) for x in seqs):
                out.nontrivial(('gl', text, fl))
        if idx % 1999 == s:
            out.sample({'mode': 'gl', 'pattern': A.render_path(A.PathPat(False, segs, False, 1)), 'stream': 'path-enum'})
    return out


def run_hyp(desc):
    from hypothesis import given, strategies as st, seed
    out = Outcome()
    seq = A.st_seq(max_budget=6, max_depth=2, max_alts=3, alphabet='abAB.x1-_ \n' + '*?[]()|!+@{}~\\')
    fn_bits = [F.DOTMATCH, F.IGNORECASE, F.CASE, F.NEGATE, F.MINUSNEGATE, F.SPLIT, F.BRACE, F.NEGATEALL, F.FORCEWIN, F.FORCEUNIX,
               F.RAWCHARS, F.EXTMATCH]
    gl_bits = fn_bits + [G.GLOBSTAR, G.GLOBSTARLONG, G.MATCHBASE, G.NODIR, G.NODOTDIR]
    raw_bits = st.sampled_from(['\\x41', '\\101', '\\n', '\\\\', '\\x2a', '{a,b}', 'a|b', '!a', '-a', '\\/', '\\xe9', '\\351', '[\\xe0-\\xef]', 'caf\\xe9',
                                 '[!\\x80-\\xff]', '\\xff*', '\\200'])

    @seed(desc['seed'])
    @util.hyp_settings(desc['n'], shrink=False)
    @given(st.lists(st.one_of(seq.map(A.render), raw_bits), min_size=1, max_size=3),
           st.one_of(st.none(), st.lists(seq.map(A.render), min_size=1, max_size=2)), st.booleans(),
           st.lists(st.sampled_from(gl_bits), max_size=6, unique=True), st.data())
    def test(pats, excl, pathmode, bits, data):
        pats = [p for p in pats if p]
        if not pats:
            return
        if excl is not None:
            excl = [e for e in excl if e] or None
        fl = 0
        for b in bits:
            if pathmode or b in fn_bits:
                fl |= b
        mode = 'gl' if pathmode else 'fn'
        names = list(N.all_names('abA.x' + ('/' if pathmode else ''), 3)) + ['A', 'a\nb', 'a b', '-a', '!a', '{a,b}', 'a|b', '*', '\xe9', 'caf\xe9', '\xc3\xa9', '\xff', '\xffa', '\x80', '\xe0']
        case = {'mode': mode, 'pattern': pats, 'exclude': excl, 'flags': fl, 'stream': 'hyp'}
        out.stats['hyp_cases'] += 1
        try:
            with util.watchdog(6):
                twin_filter(mode, pats if len(pats) > 1 else pats[0], names, fl, out, case, excl)
        except util.HarnessBudget:
            out.stats['watchdog_skipped'] += 1
            return
        except Exception as e:
            # the same exception type must come out of both twins
            ex = []
            for conv in (lambda v: v, enc):
                try:
                    (F.filter if mode == 'fn' else G.globfilter)(conv(names[:3]), conv(pats), flags=fl, **({} if excl is None else {'exclude': conv(excl)}))
                    ex.append(None)
                except Exception as e2:
                    ex.append(type(e2).__name__)
            out.evaluations += 1
            if ex[0] != ex[1]:
                out.violation(dict(case, problem='exception differs between str and bytes', exceptions=ex), bucket=('exc', mode))
            return
        out.nontrivial((mode, tuple(pats), tuple(excl or ()), fl))
        if out.stats['hyp_cases'] % 53 == 1:
            out.sample(dict(case, flags=util.names_of(fl)))
    test()
    return out


def run_highbytes(desc):
    """Single bytes 0x80-0xFF: bracket expressions, POSIX classes, `?` and `*` operate per byte (Latin-1 code units)."""
    out = Outcome()
    out.exhaustive = True
    forms = []
    for name in A.POSIX_NAMES:
        for neg in (False, True):
            forms.append(('set', neg, (('p', name),)))
    forms += [('set', False, (('r', 'a', 'z'),)), ('set', True, (('r', 'a', 'z'),)), ('set', False, (('c', '\xe9'),)),
              ('set', True, (('c', '\xe9'),)), ('set', False, (('r', '\xc0', '\xff'),)), ('set', True, (('r', '\x80', '\xbf'),)),
              ('set', False, (('c', 'a'), ('p', 'digit'), ('c', '\xff'))),
              # brackets made of reversed ranges only: nothing / any one byte
              ('set', True, (('r', 'z', 'a'),)), ('set', False, (('r', 'z', 'a'),)), ('set', True, (('r', '9', '0'), ('r', 'b', 'a'))),
              ('set', False, (('r', 'z', 'a'), ('c', '\xe9')))]
    highs = [bytes([b]) for b in range(0x80, 0x100)] + [b'a', b'Z', b'5', b' ', b'_']
    for node in forms:
        seq = (node,)
        text = A.render(seq).encode('latin-1')
        for fl in (F.DOTMATCH, F.DOTMATCH | F.IGNORECASE):
            acc = set(F.filter(highs, text, flags=fl))
            for hb in highs:
                c = hb.decode('latin-1')
                want = R.set_has(node, c, bool(fl & F.IGNORECASE))
                if fl & F.IGNORECASE and c >= '\x80':
                    continue      # non-ASCII case folding is not judged
                out.evaluations += 1
                if (hb in acc) != want:
                    out.violation({'mode': 'highbytes', 'pattern': text.decode('latin-1'), 'flags': fl, 'byte': hb[0], 'impl': hb in acc,
                                   'want': want, 'problem': 'bracket expression on a high byte'}, bucket=('high', A.render(seq), want))
            out.nontrivial(('high', text, fl))
    for pat, lens in ((b'?', {1}), (b'??', {2}), (b'*', {1, 2, 3}), (b'?*', {1, 2, 3}), (b'[!a]?', {2})):
        for n in (1, 2, 3):
            for hb in (b'\xe9', b'\x80', b'\xff', b'\xc3\xa9'[:1]):
                name = hb * n
                got = F.fnmatch(name, pat, flags=F.DOTMATCH)
                out.evaluations += 1
                if got != (n in lens):
                    out.violation({'mode': 'highbytes', 'pattern': pat.decode('latin-1'), 'name_hex': name.hex(), 'impl': got, 'want': n in lens,
                                   'problem': '? and * operate per byte'}, bucket=('perbyte', pat))
        out.nontrivial(('perbyte', pat))
    out.sample({'mode': 'highbytes', 'pattern': '[[:alpha:]]', 'bytes': '0x80-0xff'})
    return out


def run_mixed(desc):
    """A str name or root with a bytes pattern (or the reverse) raises TypeError rather than returning an answer."""
    out = Outcome()
    with util.temp_root() as root:
        util.build_tree(root, [('f', 'a'), ('d', 'd'), ('f', 'd/a')])
        calls = {
            'fnmatch(str, bytes)': lambda: F.fnmatch('a', b'a'),
            'fnmatch(bytes, str)': lambda: F.fnmatch(b'a', 'a'),
            'fnmatch(str, bytes*)': lambda: F.fnmatch('a', b'*'),
            'filter(str, bytes)': lambda: F.filter(['a'], b'*'),
            'filter(bytes, str)': lambda: F.filter([b'a'], '*'),
            'compile(bytes).match(str)': lambda: F.compile(b'*').match('a'),
            'globmatch(str, bytes)': lambda: G.globmatch('a', b'*'),
            'globmatch(bytes, str)': lambda: G.globmatch(b'a', '*'),
            'globfilter(str, bytes)': lambda: G.globfilter(['a'], b'*'),
            'globmatch REALPATH (str, bytes)': lambda: G.globmatch('a', b'*', flags=G.REALPATH, root_dir=root),
            'globmatch REALPATH (bytes name, str root)': lambda: G.globmatch(b'a', b'*', flags=G.REALPATH, root_dir=root),
            'globmatch REALPATH (str name, bytes root)': lambda: G.globmatch('a', '*', flags=G.REALPATH, root_dir=os.fsencode(root)),
            'glob(bytes, str root)': lambda: G.glob(b'*', root_dir=root),
            'glob(str, bytes root)': lambda: G.glob('*', root_dir=os.fsencode(root)),
            'iglob(bytes, str root)': lambda: list(G.iglob(b'*', root_dir=root)),
            'glob.compile(bytes).match(str)': lambda: G.compile(b'*').match('a'),
        }
        for label, fn in sorted(calls.items()):
            out.evaluations += 1
            out.nontrivial(('mixed', label))
            try:
                r = fn()
                out.violation({'mode': 'mixed', 'call': label, 'returned': repr(r), 'problem': 'mixed str/bytes call returned instead of raising TypeError'},
                              bucket=('mixed', label))
            except TypeError:
                pass
            except Exception as e:
                out.violation({'mode': 'mixed', 'call': label, 'error': type(e).__name__, 'problem': 'mixed str/bytes call raised something else'},
                              bucket=('mixed-exc', label))
    # is_magic() and escape() are text-type blind: drive / UNC spellings and every metacharacter, all subsets of the flags that make
    # further characters magic
    shapes = ['a', 'a*', 'a?', '[a]', r'a\b', r'a\\b', r'\\server\share', r'\\\\server\\share', r'\\\\server\\share\\file.txt', r'\\\\server\\mount\\',
              r'c:\temp/file', r'c:\\temp/file', r'//?/c:\\temp', '//server/share/x', 'c:/x', r'c:\\', r'c:\\temp', r'\\\\?\\UNC\\server\\share\\x', 'a{b', 'a|b',
              '~a', '!a', '-a', '@(a)', 'a/b', r'\\\\server\\sh{a}re', r'c:\\te|mp', '//server/sh*re/x', r'\\\\ser*ver\\share', 'a b', '', '\\', 'c:',
              r'\\', r'\\\\', r'//server\\share', r'\\\\server/share/x']
    mflags = [G.BRACE, G.SPLIT, G.GLOBTILDE, G.NEGATE, G.MINUSNEGATE, G.EXTGLOB]
    for plat in (G.FORCEWIN, G.FORCEUNIX, 0):
        for i in range(1 << len(mflags)):
            fl = plat
            for j, b in enumerate(mflags):
                if i >> j & 1:
                    fl |= b
            for t in shapes:
                out.evaluations += 1
                try:
                    a, b = G.is_magic(t, flags=fl), G.is_magic(t.encode(), flags=fl)
                    ffl = fl & ~(G.GLOBTILDE)
                    c, d = F.is_magic(t, flags=ffl), F.is_magic(t.encode(), flags=ffl)
                except Exception as e:
                    out.violation({'mode': 'is_magic', 'text': t, 'flags': fl, 'problem': 'is_magic raised ' + type(e).__name__}, bucket=('is-magic-exc',))
                    continue
                if a != b or c != d:
                    out.violation({'mode': 'is_magic', 'text': t, 'flags': fl, 'glob': [a, b], 'fnmatch': [c, d],
                                   'problem': 'is_magic() answers differently for the bytes spelling of a text'}, bucket=('is-magic', t))
        for t in shapes:
            for unix in (None, True, False):
                out.evaluations += 1
                if G.escape(t, unix=unix).encode() != G.escape(t.encode(), unix=unix):
                    out.violation({'mode': 'is_magic', 'text': t, 'unix': unix, 'problem': 'escape() differs between str and bytes'}, bucket=('escape', t))
    out.nontrivial(('is_magic', len(shapes)))
    out.sample({'mode': 'mixed', 'calls': sorted(calls)})
    return out


FS_TREES = [
    [('f', 'a'), ('f', 'b.txt'), ('f', '.h'), ('d', 'd'), ('f', 'd/a'), ('f', 'd/c.txt'), ('d', 'd/e'), ('f', 'd/e/a'), ('l', 'ld', 'd'),
     ('l', 'lf', 'a'), ('l', 'dang', 'nowhere'), ('d', '.hd'), ('f', '.hd/a')],
    [('d', 'A'), ('f', 'A/b'), ('f', 'A/B'), ('d', 'a'), ('f', 'a/x1'), ('f', 'x1'), ('d', 'a/a'), ('f', 'a/a/a'), ('f', '[a]'), ('f', 'a*')],
    # names with a backslash (at the end, before a dot) and with a newline: ordinary characters on POSIX
    [('f', 'x\\'), ('f', 'a'), ('d', 'd'), ('f', 'd/x\\'), ('d', 'd\\'), ('f', 'd\\/a'), ('d', 'a\\.'), ('f', 'a\\./x'), ('f', 'a\\b'), ('d', 'x\n'),
     ('f', 'x\n/a'), ('f', 'a\n')],
]


def run_fs(desc):
    from hypothesis import given, strategies as st, seed
    out = Outcome()
    seg = A.st_seq(max_budget=3, max_depth=1, max_alts=2, alphabet='abAdx1.[]*', posix=False, ranges=False)
    pat = st.lists(st.one_of(seg, seg, st.just(A.GS)), min_size=1, max_size=3)
    gflags = [G.GLOBSTAR, G.DOTGLOB, G.EXTGLOB, G.MARK, G.NODIR, G.MATCHBASE, G.BRACE, G.SPLIT, G.NEGATE, G.IGNORECASE, G.SCANDOTDIR,
              G.NOUNIQUE, G.FOLLOW, G.GLOBSTARLONG]
    wflags = [WM.RECURSIVE, WM.HIDDEN, WM.SYMLINKS, WM.FILEPATHNAME, WM.DIRPATHNAME, WM.MATCHBASE, WM.GLOBSTAR, WM.EXTMATCH, WM.IGNORECASE]
    for ti, spec in enumerate(FS_TREES):
        with FC.built_tree(spec) as (root, _removed):      # deep sandbox: `..` segments of generated patterns stay inside it
            broot = os.fsencode(root)
            cands = []
            for b_, ds_, fs_ in os.walk(root, followlinks=False):
                for n_ in ds_ + fs_:
                    rel_ = os.path.relpath(os.path.join(b_, n_), root)
                    cands.append(rel_)
                    if os.path.isdir(os.path.join(b_, n_)):
                        cands.append(rel_ + '/')
                        if os.path.islink(os.path.join(b_, n_)):
                            for n2_ in sorted(os.listdir(os.path.join(b_, n_)))[:3]:
                                cands.append(rel_ + '/' + n2_)
            cands.sort()
            # every subset of the flags that decide how far a crawl reaches x a fixed list of patterns: bytes and str results agree
            reach = [G.GLOBSTAR, G.GLOBSTARLONG, G.FOLLOW, G.MATCHBASE, G.DOTGLOB, G.NODIR]
            for i_ in range(64):
                fl_ = 0
                for j_, bit_ in enumerate(reach):
                    if i_ >> j_ & 1:
                        fl_ |= bit_
                for t_ in ('*', 'a', 'a*', '**', '***', '*/', '**/a', '***/a', 'd/**', '*/a', '.*', 'x1', 'ld/**', '**/', '[ab]*'):
                    try:
                        with util.watchdog(6), util.ScandirCounter(3000):
                            sa_ = G.glob(t_, flags=fl_, root_dir=root)
                            sb_ = G.glob(enc(t_), flags=fl_, root_dir=broot)
                    except util.HarnessBudget:
                        out.stats['watchdog_skipped'] += 1
                        continue
                    out.evaluations += 1
                    if [os.fsencode(x) for x in sa_] != sb_:
                        out.violation({'mode': 'fs', 'api': 'glob', 'pattern': [t_], 'flags': fl_, 'tree': ti, 'str': sa_[:8], 'bytes': [x.decode('latin-1') for x in sb_[:8]],
                                       'problem': 'bytes result differs from str result (as sequences)'}, size=len(t_) * 10, bucket=('fs-reach', t_))
                    elif sa_ and i_ & 15:
                        out.nontrivial(('fs-reach', ti, t_, fl_))

            # tilde expansion in inclusions and in inline exclusions (HOME is the tree): bytes as str
            home0_ = os.environ.get('HOME')
            os.environ['HOME'] = root
            try:
                for pl_ in (['~/*', '!~/a'], ['~/*', '!~/d'], ['~/*'], ['~'], ['~/*', '-~/a'], ['*', '!~'], ['~/d/*', '!~/d/a']):
                    for fl_ in (G.GLOBTILDE | G.NEGATE, G.GLOBTILDE | G.NEGATE | G.MINUSNEGATE, G.GLOBTILDE, G.NEGATE, G.GLOBTILDE | G.NEGATE | G.MARK):
                        try:
                            ta_ = G.glob(pl_, flags=fl_, root_dir=root)
                            tb_ = G.glob(enc(pl_), flags=fl_, root_dir=broot)
                            names_ = [os.path.join(root, c_) for c_ in cands[:12]]
                            fa_ = G.globfilter(names_, pl_, flags=fl_ | G.REALPATH)
                            fb_ = G.globfilter([os.fsencode(n_) for n_ in names_], enc(pl_), flags=fl_ | G.REALPATH)
                        except Exception as e:
                            out.stats['exception_skipped:' + type(e).__name__] += 1
                            continue
                        out.evaluations += 2
                        if [os.fsencode(x) for x in ta_] != tb_ or [os.fsencode(x) for x in fa_] != fb_:
                            out.violation({'mode': 'fs', 'api': 'glob/globfilter with HOME', 'pattern': pl_, 'flags': fl_, 'tree': ti,
                                           'str': [x.replace(root, '<root>') for x in ta_][:8], 'bytes': [os.fsdecode(x).replace(root, '<root>') for x in tb_][:8],
                                           'problem': 'bytes result differs from str result: tilde patterns'}, bucket=('fs-tilde', str(pl_)))
                        elif ta_:
                            out.nontrivial(('fs-tilde', ti, str(pl_), fl_))
            finally:
                if home0_ is None:
                    os.environ.pop('HOME', None)
                else:
                    os.environ['HOME'] = home0_
            # absolute names against absolute patterns whose globstar starts at the file system root (REALPATH: the part of the name a
            # globstar took is looked up for symlinks, from wherever that part starts)
            abs_names = [os.path.join(root, c_) for c_ in cands if not c_.endswith('/')]
            for t_ in ('/**/a', '/**/*.txt', '/**', '/**/e/a', '/**/d/**', root + '/**/a', root + '/*/a', '/**/x1'):
                for fl_ in (G.GLOBSTAR | G.REALPATH, G.GLOBSTAR | G.REALPATH | G.FOLLOW, G.GLOBSTARLONG | G.GLOBSTAR | G.REALPATH, G.GLOBSTAR | G.REALPATH | G.DOTGLOB):
                    try:
                        with util.watchdog(6):
                            ma_ = G.globfilter(abs_names, t_, flags=fl_)
                            mb_ = G.globfilter([os.fsencode(n_) for n_ in abs_names], enc(t_), flags=fl_)
                    except util.HarnessBudget:
                        out.stats['watchdog_skipped'] += 1
                        continue
                    out.evaluations += 1
                    if [os.fsencode(x) for x in ma_] != mb_:
                        d_ = sorted(set(os.fsencode(x) for x in ma_) ^ set(mb_))[0].decode('latin-1')
                        out.violation({'mode': 'fs', 'api': 'globfilter(REALPATH) absolute', 'pattern': [t_.replace(root, '<root>')], 'flags': fl_, 'tree': ti,
                                       'name': d_.replace(root, '<root>'), 'problem': 'bytes result differs from str result: globfilter with REALPATH, absolute names'},
                                      size=len(t_) * 10, bucket=('fs-abs', t_.replace(root, '<root>')))
                    elif ma_:
                        out.nontrivial(('fs-abs', ti, t_.replace(root, '<root>'), fl_))
            # WcMatch with empty / missing / exclusion-only patterns: the bytes walk returns and skips what the str walk does
            for wfl_ in (0, WM.RECURSIVE, WM.RECURSIVE | WM.HIDDEN, WM.RECURSIVE | WM.HIDDEN | WM.SYMLINKS, WM.RECURSIVE | WM.FILEPATHNAME | WM.HIDDEN):
                for fp_, ep_ in (('', ''), (None, None), ('*', ''), ('', 'd'), ('!a', ''), ('*|!a*', 'd|!d'), ('*.txt', None)):
                    try:
                        with util.watchdog(6), util.ScandirCounter(3000):
                            wa_ = WM.WcMatch(root, fp_, ep_, flags=wfl_)
                            ra_ = wa_.match()
                            wb_ = WM.WcMatch(broot, None if fp_ is None else enc(fp_), None if ep_ is None else enc(ep_), flags=wfl_)
                            rb_ = wb_.match()
                    except util.HarnessBudget:
                        out.stats['watchdog_skipped'] += 1
                        continue
                    out.evaluations += 1
                    if [os.fsencode(x) for x in ra_] != rb_ or wa_.get_skipped() != wb_.get_skipped():
                        out.violation({'mode': 'fs', 'api': 'WcMatch', 'pattern': fp_, 'exclude_pattern': ep_, 'flags': wfl_, 'tree': ti,
                                       'str': [os.path.relpath(x, root) for x in ra_][:8], 'bytes': [os.path.relpath(os.fsdecode(x), root) for x in rb_][:8],
                                       'skipped': [wa_.get_skipped(), wb_.get_skipped()],
                                       'problem': 'bytes walk differs from str walk (results or skipped count)'}, bucket=('fs-wcmatch-fixed', str(fp_)))
                    elif ra_:
                        out.nontrivial(('fs-wcmatch-fixed', ti, fp_, ep_, wfl_))

            @seed(desc['seed'] + ti)
            @util.hyp_settings(desc['n'], shrink=False)
            @given(st.lists(pat, min_size=1, max_size=2), st.lists(st.sampled_from(gflags), max_size=5, unique=True),
                   st.lists(st.sampled_from(wflags), max_size=5, unique=True), st.booleans(), st.integers(0, 11))
            def test(pats, gbits, wbits, use_wm, shape):
                texts = []
                for segs in pats:
                    segs = tuple(x for x in segs if x)
                    if segs:
                        # spelling: runs of separators, trailing separator, leading `./`
                        t = A.render_path(A.PathPat(False, segs, shape in (3, 4), 2 if shape in (1, 4) else 3 if shape == 2 else 1))
                        if shape == 5:
                            t = './/' + t
                        if shape == 6 and '{' not in t and ',' not in t:
                            t = t.replace('/', '/{,x}/', 1)      # with BRACE: an empty alternative leaves `a//b`
                        texts.append(t)
                if not texts:
                    return
                out.stats['fs_cases'] += 1
                try:
                    with util.watchdog(6), util.ScandirCounter(3000):
                        if use_wm:
                            fl = 0
                            for b in wbits:
                                fl |= b
                            fp = '|'.join(t.replace('/', '') or '*' for t in texts) if not (fl & WM.FILEPATHNAME) else '|'.join(texts)
                            a = WM.WcMatch(root, fp, 'e', flags=fl).match()
                            b = WM.WcMatch(broot, enc(fp), b'e', flags=fl).match()
                            case = {'mode': 'fs', 'api': 'WcMatch', 'pattern': fp, 'flags': fl, 'tree': ti}
                        else:
                            fl = 0
                            for bit in gbits:
                                fl |= bit
                            a = G.glob(texts, flags=fl, root_dir=root)
                            b = G.glob(enc(texts), flags=fl, root_dir=broot)
                            a2 = list(G.iglob(texts, flags=fl, root_dir=root))
                            case = {'mode': 'fs', 'api': 'glob', 'pattern': texts, 'flags': fl, 'tree': ti}
                            if a2 != a:
                                out.violation(dict(case, problem='iglob differs from glob'), bucket=('iglob',))
                                return
                            # the same walk with the root given as a directory descriptor
                            fd_ = os.open(root, os.O_RDONLY)
                            try:
                                da = G.glob(texts, flags=fl, dir_fd=fd_)
                                db = G.glob(enc(texts), flags=fl, dir_fd=fd_)
                            finally:
                                os.close(fd_)
                            out.evaluations += 1
                            if [os.fsencode(x) for x in da] != db:
                                d = sorted(set(os.fsencode(x) for x in da) ^ set(db))[0].decode('latin-1')
                                out.violation(dict(case, api='glob(dir_fd)', name=d, problem='bytes result differs from str result: glob with dir_fd'),
                                              size=len(str(texts)) * 10, bucket=('fs', 'dir_fd'))
                                return
                            # the matcher that looks at the file system: every entry, with and without a trailing separator
                            ma = G.globfilter(cands, texts, flags=fl | G.REALPATH, root_dir=root)
                            mb = G.globfilter([os.fsencode(c) for c in cands], enc(texts), flags=fl | G.REALPATH, root_dir=broot)
                            out.evaluations += 1
                            if [os.fsencode(x) for x in ma] != mb:
                                d = sorted(set(os.fsencode(x) for x in ma) ^ set(mb))[0].decode()
                                out.violation(dict(case, api='globfilter(REALPATH)', name=d,
                                                   problem='bytes result differs from str result: globfilter with REALPATH'),
                                              size=len(str(texts)) * 10, bucket=('fs', 'globfilter'))
                                return
                except util.HarnessBudget:
                    out.stats['watchdog_skipped'] += 1
                    return
                except Exception as e:
                    out.stats['exception_skipped:' + type(e).__name__] += 1
                    return
                out.evaluations += 1
                if [os.fsencode(x) for x in a] != b:
                    out.violation(dict(case, problem='bytes result differs from str result (as sequences)', str=a[:8], bytes=[x.decode() for x in b[:8]]),
                                  size=len(str(texts)) * 10, bucket=('fs', case['api']))
                    return
                out.nontrivial(('fs', ti, tuple(texts), fl, use_wm))
                if out.stats['fs_cases'] % 37 == 1:
                    out.sample(dict(case, results=len(a)))
            test()
    return out


def replay(case):
    util.clear_caches()
    m = case.get('mode')
    o = Outcome()
    if m in ('fn', 'gl'):
        names = list(N.all_names('abA.x' + ('/' if m == 'gl' else ''), 3)) + ['A', 'a\nb', 'a b', '-a', '!a', '{a,b}', 'a|b', '*']
        if case.get('name'):
            names.append(case['name'])
        p = case['pattern']
        twin_filter(m, p if isinstance(p, str) or len(p) > 1 else p[0], names, case['flags'], o, {}, case.get('exclude'))
        return (not o.violations), [v[2].get('problem') for v in o.violations]
    if m == 'highbytes':
        r = run_highbytes({})
        return (not r.violations), [v[2] for v in r.violations][:3]
    if m in ('mixed', 'is_magic'):
        r = run_mixed({})
        return (not r.violations), [v[2] for v in r.violations][:3]
    if m == 'fs':
        with FC.built_tree(FS_TREES[case['tree']]) as (root, _removed):
            broot = os.fsencode(root)
            if case['api'] == 'glob/globfilter with HOME':
                home0_ = os.environ.get('HOME')
                os.environ['HOME'] = root
                try:
                    a = G.glob(case['pattern'], flags=case['flags'], root_dir=root)
                    b = G.glob(enc(case['pattern']), flags=case['flags'], root_dir=broot)
                finally:
                    if home0_ is None:
                        os.environ.pop('HOME', None)
                    else:
                        os.environ['HOME'] = home0_
            elif case['api'] == 'globfilter(REALPATH) absolute':
                abs_names = []
                for b_, ds_, fs_ in os.walk(root, followlinks=True):
                    abs_names += [os.path.join(b_, n_) for n_ in ds_ + fs_]
                    if len(abs_names) > 400:
                        break
                t_ = case['pattern'][0].replace('<root>', root)
                a = G.globfilter(abs_names, t_, flags=case['flags'])
                b = G.globfilter([os.fsencode(n_) for n_ in abs_names], enc(t_), flags=case['flags'])
            elif case['api'].startswith('globfilter'):
                names = [case['name'], case['name'].rstrip('/'), case['name'].rstrip('/') + '/']
                a = G.globfilter(names, case['pattern'], flags=case['flags'] | G.REALPATH, root_dir=root)
                b = G.globfilter([os.fsencode(n) for n in names], enc(case['pattern']), flags=case['flags'] | G.REALPATH, root_dir=broot)
            elif case['api'] == 'WcMatch' and 'exclude_pattern' in case:
                fp_, ep_ = case['pattern'], case['exclude_pattern']
                wa_ = WM.WcMatch(root, fp_, ep_, flags=case['flags'])
                wb_ = WM.WcMatch(broot, None if fp_ is None else enc(fp_), None if ep_ is None else enc(ep_), flags=case['flags'])
                a, b = wa_.match(), wb_.match()
                if wa_.get_skipped() != wb_.get_skipped():
                    return False, {'skipped': [wa_.get_skipped(), wb_.get_skipped()]}
            elif case['api'] == 'WcMatch':
                a = WM.WcMatch(root, case['pattern'], 'e', flags=case['flags']).match()
                b = WM.WcMatch(broot, enc(case['pattern']), b'e', flags=case['flags']).match()
            else:
                a = G.glob(case['pattern'], flags=case['flags'], root_dir=root)
                b = G.glob(enc(case['pattern']), flags=case['flags'], root_dir=broot)
            return [os.fsencode(x) for x in a] == b, {'str': a[:10], 'bytes': [x.decode() for x in b[:10]]}
    return True, {'note': 'unknown mode'}
