"""Name generation: minterm representatives, bounded enumeration, model-guided long names, edit neighbourhoods."""
import itertools

from . import ast as A
from . import ref as R

PROBES = 'zZ0_ ~\x01\xe9'


def _atoms(seqs):
    lits, sets = set(), []
    for seq in seqs:
        for n in A.walk(seq):
            if n[0] == 'lit':
                lits.add(n[1])
            elif n[0] == 'set' and n not in sets:
                sets.append(n)
    return lits, sets


def representatives(seqs, icase=False, extra='.', cap=6):
    """One character per minterm of the partition induced by the literals and sets of the pattern(s).

    Returns (alphabet string, complete) - complete=False when the cap forced minterms to be dropped.
    """
    lits, sets = _atoms(seqs)
    cands = []
    for c in extra:
        cands.append(c)
    for c in sorted(lits):
        cands.append(c)
        if icase and c.isalpha() and c < '\x80':
            cands.append(c.swapcase())
    for st in sets:
        for it in st[2]:
            if it[0] == 'c':
                cands.append(it[1])
                if icase and it[1].isalpha() and it[1] < '\x80':
                    cands.append(it[1].swapcase())
            elif it[0] == 'r':
                cands.extend([it[1], it[2]])
                if ord(it[1]) > 0:
                    cands.append(chr(ord(it[1]) - 1))
                cands.append(chr(ord(it[2]) + 1))
                if icase:
                    cands.extend([it[1].swapcase(), it[2].swapcase()])
            else:
                f = R.POSIX[it[1]]
                for probe in 'a', 'A', '5', '_', ' ', '\t', '!', '\x01', '\x7f', '\xe9', 'g', 'G':
                    if f(probe):
                        cands.append(probe)
                        break
    cands.extend(PROBES)
    seen = {}
    order = []
    for c in cands:
        sig = (c == '.', c == '\n', c == '/',
               tuple(c == l for l in sorted(lits)),
               tuple(R.set_has(s, c, False) for s in sets),
               (c.islower(), c.isupper()) if icase else ())
        if sig not in seen:
            seen[sig] = c
            order.append(c)
    complete = len(order) <= cap
    return ''.join(order[:cap]), complete


def all_names(alphabet, maxlen):
    for n in range(1, maxlen + 1):
        for t in itertools.product(alphabet, repeat=n):
            yield ''.join(t)


def neighbours(s, probes):
    """Every string at edit distance 1 (deletions, substitutions and insertions from `probes`), plus short
    prefix/suffix extensions."""
    out = set()
    for i in range(len(s)):
        out.add(s[:i] + s[i + 1:])
        for c in probes:
            out.add(s[:i] + c + s[i + 1:])
    for i in range(len(s) + 1):
        for c in probes:
            out.add(s[:i] + c + s[i:])
    out.discard(s)
    return out


def guided_names(seq, draw_int, alphabet='ab.xAB1', want=6, maxlen=24, icase=False):
    """Names accepted by the reference (plain policy), produced by a randomised walk over the AST.

    draw_int(lo, hi) supplies every random choice (a Hypothesis draw), so shrinking and replay work.
    """
    out = []
    for _ in range(want):
        s = _instantiate(seq, draw_int, alphabet, 0)
        if s is not None and 0 < len(s) <= maxlen:
            out.append(s)
    return out


def _pick_char(node, draw_int, alphabet):
    pool = [c for c in alphabet + 'zZ0_' if R.set_has(node, c)]
    if not pool:
        for o in range(32, 127):
            if R.set_has(node, chr(o)):
                pool.append(chr(o))
                break
    if not pool:
        return None
    return pool[draw_int(0, len(pool) - 1)]


def _instantiate(seq, draw_int, alphabet, depth):
    parts = []
    for n in seq:
        k = n[0]
        if k == 'lit':
            parts.append(n[1])
        elif k == 'any':
            parts.append(alphabet[draw_int(0, len(alphabet) - 1)])
        elif k == 'star':
            ln = draw_int(0, 4)
            parts.append(''.join(alphabet[draw_int(0, len(alphabet) - 1)] for _ in range(ln)))
        elif k == 'set':
            c = _pick_char(n, draw_int, alphabet)
            if c is None:
                return None
            parts.append(c)
        else:
            kind, alts = n[1], n[2]
            if kind == '!':
                ln = draw_int(0, 3)
                parts.append(''.join(alphabet[draw_int(0, len(alphabet) - 1)] for _ in range(ln)))
                continue
            lo, hi = {'?': (0, 1), '*': (0, 3), '+': (1, 3), '@': (1, 1)}[kind]
            reps = draw_int(lo, hi)
            for _ in range(reps):
                a = alts[draw_int(0, len(alts) - 1)]
                sub = _instantiate(a, draw_int, alphabet, depth + 1)
                if sub is None:
                    return None
                parts.append(sub)
    return ''.join(parts)
