"""Pattern model: ASTs, renderer, bounded enumerator and Hypothesis strategies (DESIGN.md 2.1).

Nodes are hashable tuples:
  ('lit', c)  ('any',)  ('star',)  ('set', neg, items)  ('ext', kind, alts)
  items: tuple of ('c', ch) | ('r', lo, hi) | ('p', posix-name);  alts: tuple of Seq;  Seq: tuple of nodes
Path pattern: PathPat(absolute, segs, trail, dup) with segs a tuple of Seq | 'GS' | 'GSL'.
The reference semantics (ref.py) is defined on these objects and never parses pattern text.
"""
import itertools
import collections

ANY = ('any',)
STAR = ('star',)
GS = 'GS'
GSL = 'GSL'

POSIX_NAMES = ('alnum', 'alpha', 'ascii', 'blank', 'cntrl', 'digit', 'graph', 'lower', 'print', 'punct', 'space', 'upper',
               'word', 'xdigit')

# characters that are special under at least one flag set: always escaped in "full" escaping mode
SPECIAL = set('*?[]()|!+@\\{}-~')

PathPat = collections.namedtuple('PathPat', 'absolute segs trail dup')


def lit(c):
    return ('lit', c)


def lits(s):
    return tuple(('lit', c) for c in s)


def mkset(neg, *items):
    return ('set', bool(neg), tuple(items))


def ext(kind, *alts):
    return ('ext', kind, tuple(tuple(a) for a in alts))


# ---------------------------------------------------------------------------------------------- rendering

def render_set(node, variant=0):
    """variant 0 is the canonical spelling; other values choose equivalent spellings: `^` for negation, a first `]` and a
    last `-` written bare."""
    items = node[2]
    body = ''
    for i, it in enumerate(items):
        if it[0] == 'c':
            c = it[1]
            if variant & 2 and c == ']' and i == 0:
                body += c
            elif variant & 4 and c == '-' and i == len(items) - 1 and len(items) > 1 and items[i - 1][0] == 'c':
                body += c
            else:
                body += '\\' + c if c in '\\]-[!^' else c
        elif it[0] == 'r':
            body += it[1] + '-' + it[2]
        else:
            body += '[:' + it[1] + ':]'
    return '[' + (('^' if variant & 1 else '!') if node[1] else '') + body + ']'


def render(seq, extmatch=True, variant=0):
    """Pattern text of a Seq. Without extmatch, Ext nodes must have been flattened (see flatten_ext).
    variant != 0 selects equivalent spellings (see render_set; bit 8: a literal dot written `\\.`)."""
    out = []
    for n in seq:
        k = n[0]
        if k == 'lit':
            c = n[1]
            if c == '.' and variant & 8:
                out.append('\\.')
            else:
                out.append('\\' + c if c in SPECIAL else c)
        elif k == 'any':
            out.append('?')
        elif k == 'star':
            out.append('*')
        elif k == 'set':
            out.append(render_set(n, variant))
        elif k == 'ext':
            if not extmatch:
                raise ValueError('Ext node rendered without EXTMATCH')
            out.append(n[1] + '(' + '|'.join(render(a, extmatch, variant) for a in n[2]) + ')')
        else:
            raise ValueError(n)
    return ''.join(out)


def render_loose(seq, extmatch=True):
    """The same AST written with as few backslashes as the grammar allows (EXTMATCH on; no BRACE, SPLIT, NEGATE, GLOBTILDE):
    a character that is only special as part of a construct it cannot form here is left bare, e.g. `{`, `-`, `!` not followed by
    `(`, a `(` that no `)` can close.  Every decision is conservative: when in doubt the character stays escaped."""
    strict = render(seq, extmatch)
    out = []
    state = {'bare_open': False}

    def emit(seq, depth, tail_has_close):
        for idx, n in enumerate(seq):
            k = n[0]
            if k == 'lit':
                c = n[1]
                prev = out[-1][-1:] if out else ''
                prev_escaped = len(out[-1]) == 2 and out[-1][0] == '\\' if out else False
                nxt = seq[idx + 1] if idx + 1 < len(seq) else None
                nxt_paren = nxt is not None and nxt[0] == 'lit' and nxt[1] == '('
                if c in '{}~-':
                    out.append(c)
                elif c in '!+@' and extmatch:
                    out.append(c if not nxt_paren else '\\' + c)
                elif c == '(' and extmatch:
                    after_ext = prev in '!?*+@' and not prev_escaped and prev != ''
                    if not after_ext:
                        out.append(c)
                        state['bare_open'] = True
                    elif depth == 0 and not tail_has_close and ')' not in render(seq[idx + 1:], extmatch).replace('\\)', ''):
                        out.append(c)
                        state['bare_open'] = True
                    else:
                        out.append('\\' + c)
                elif c in ')|' and extmatch:
                    out.append(c if depth == 0 and not state['bare_open'] else '\\' + c)
                elif c in SPECIAL:
                    out.append('\\' + c)
                else:
                    out.append(c)
            elif k == 'any':
                out.append('?')
            elif k == 'star':
                out.append('*')
            elif k == 'set':
                out.append(render_set(n))
            else:
                out.append(n[1] + '(')
                for i, a in enumerate(n[2]):
                    if i:
                        out.append('|')
                    emit(a, depth + 1, True)
                out.append(')')
    emit(seq, 0, False)
    return ''.join(out)


def render_plain(seq):
    """Render for a run WITHOUT EXTMATCH: group syntax characters are written unescaped and are literals there."""
    out = []
    for n in seq:
        k = n[0]
        if k == 'lit':
            c = n[1]
            out.append('\\' + c if c in '*?[]\\' else c)
        elif k == 'any':
            out.append('?')
        elif k == 'star':
            out.append('*')
        elif k == 'set':
            out.append(render_set(n))
        else:
            raise ValueError(n)
    return ''.join(out)


def flatten_ext(seq):
    """AST of the same text read without EXTMATCH: `@(a|b)` is the literal text '@(' 'a' '|' 'b' ')' (wildcards stay).

    `?(`, `*(` keep their wildcard: '?' then literal '('.
    """
    out = []
    for n in seq:
        if n[0] == 'ext':
            kind = n[1]
            out.append(ANY if kind == '?' else STAR if kind == '*' else ('lit', kind))
            out.append(('lit', '('))
            for i, a in enumerate(n[2]):
                if i:
                    out.append(('lit', '|'))
                out.extend(flatten_ext(a))
            out.append(('lit', ')'))
        else:
            out.append(n)
    return tuple(out)


def merge_stars(seq):
    """Canonical form: runs of stars are one star (wcmatch and Bash agree: `**` inside a name is `*`)."""
    out = []
    for n in seq:
        if n[0] == 'ext':
            n = ('ext', n[1], tuple(merge_stars(a) for a in n[2]))
        if n == STAR and out and out[-1] == STAR:
            continue
        out.append(n)
    return tuple(out)


def render_path(pp, extmatch=True, loose=False, sep='/', variant=0):
    """sep='\\/' writes every separator (between segments, the root and a trailing one) as an escaped slash (same meaning)."""
    segs = []
    for s in pp.segs:
        if s == GS:
            segs.append('**')
        elif s == GSL:
            segs.append('***')
        elif loose and extmatch:
            segs.append(render_loose(s))
        else:
            segs.append(render(s, extmatch, variant) if extmatch else render_plain(s))
    joiner = sep * pp.dup
    return (sep if pp.absolute else '') + joiner.join(segs) + (sep if pp.trail else '')


# ---------------------------------------------------------------------------------------------- inspection

def walk(seq):
    for n in seq:
        yield n
        if n[0] == 'ext':
            for a in n[2]:
                yield from walk(a)


def has_ext(seq, kinds=None):
    return any(n[0] == 'ext' and (kinds is None or n[1] in kinds) for n in walk(seq))


def has_wild(seq):
    return any(n[0] in ('any', 'star', 'set', 'ext') for n in walk(seq))


def is_literal(seq):
    return all(n[0] == 'lit' for n in seq)


def literal_text(seq):
    return ''.join(n[1] for n in seq)


def size(seq):
    return sum(1 for _ in walk(seq))


def depth(seq):
    d = 0
    for n in seq:
        if n[0] == 'ext':
            d = max(d, 1 + max([depth(a) for a in n[2]] or [0]))
    return d


def neg_exact(seq):
    """C01's exact fragment for negation: every `!(` is top level, contains no further `!(`, and is followed only
    by literals within the sequence."""
    for i, n in enumerate(seq):
        if n[0] == 'ext':
            if n[1] == '!':
                if any(has_ext(a, '!') for a in n[2]):
                    return False
                if not all(m[0] == 'lit' for m in seq[i + 1:]):
                    return False
            elif has_ext((n,), '!'):
                # a negation nested in another group
                return False
    return True


def to_json(x):
    if isinstance(x, PathPat):
        return {'absolute': x.absolute, 'segs': [to_json(s) for s in x.segs], 'trail': x.trail, 'dup': x.dup}
    if isinstance(x, tuple):
        return [to_json(y) for y in x]
    return x


def from_json(x):
    if isinstance(x, dict):
        return PathPat(x['absolute'], tuple(s if isinstance(s, str) else from_json(s) for s in x['segs']), x['trail'],
                       x.get('dup', 1))
    if isinstance(x, list):
        return tuple(from_json(y) for y in x)
    return x


# ---------------------------------------------------------------------------------------------- enumeration

def atoms_default(extra=()):
    return (lit('a'), lit('b'), lit('.'), ANY, STAR, mkset(False, ('c', 'a'), ('c', '.')), mkset(True, ('c', 'a'))) \
        + tuple(extra)


def enum_seqs(budget, atoms, kinds='?*+@!', max_depth=2, max_alts=2, allow_empty_alt=True, _depth=0):
    """All sequences whose token cost is exactly `budget` (atom = 1, group = 1 + cost of its alternatives;
    an empty alternative costs 0)."""
    if budget == 0:
        yield ()
        return
    # first node, then the rest
    for first_cost in range(1, budget + 1):
        for first in enum_nodes(first_cost, atoms, kinds, max_depth, max_alts, allow_empty_alt, _depth):
            for rest in enum_seqs(budget - first_cost, atoms, kinds, max_depth, max_alts, allow_empty_alt, _depth):
                yield (first,) + rest


def enum_nodes(cost, atoms, kinds, max_depth, max_alts, allow_empty_alt, _depth):
    if cost == 1:
        yield from atoms
        if _depth < max_depth and allow_empty_alt:
            for k in kinds:
                yield ('ext', k, ((),))
        return
    if _depth >= max_depth:
        return
    inner = cost - 1
    for k in kinds:
        # one alternative
        for a in enum_seqs(inner, atoms, kinds, max_depth, max_alts, allow_empty_alt, _depth + 1):
            yield ('ext', k, (a,))
        if max_alts >= 2:
            lo = 0 if allow_empty_alt else 1
            for c1 in range(lo, inner + 1):
                c2 = inner - c1
                if c2 < lo or c1 > c2:
                    continue   # unordered split; both orders are produced below when c1 != c2
                for a1 in enum_seqs(c1, atoms, kinds, max_depth, max_alts, allow_empty_alt, _depth + 1):
                    for a2 in enum_seqs(c2, atoms, kinds, max_depth, max_alts, allow_empty_alt, _depth + 1):
                        if c1 == c2 and a1 == a2:
                            continue
                        yield ('ext', k, (a1, a2))
                        if c1 != c2:
                            yield ('ext', k, (a2, a1))


def enum_upto(budget, atoms, **kw):
    seen = set()
    for b in range(1, budget + 1):
        for s in enum_seqs(b, atoms, **kw):
            s = merge_stars(s)
            if s and s not in seen:
                seen.add(s)
                yield s


# ---------------------------------------------------------------------------------------------- strategies

LIT_ALPHABET = 'abAB.x1-_ \n\xe9' + '*?[]()|!+@{}~\\'


def st_seq(max_budget=8, max_depth=3, max_alts=3, kinds='?*+@!', alphabet=LIT_ALPHABET, neg_exact_bias=True,
           ranges=True, posix=True, set_alphabet='abAB.x1_\xe9]^!-['):
    """Hypothesis strategy for Seq ASTs."""
    from hypothesis import strategies as st

    litc = st.sampled_from(alphabet)
    set_chars = st.sampled_from(set_alphabet)
    items = [litc_item for litc_item in [set_chars.map(lambda c: ('c', c))]]
    if ranges:
        items.append(st.sampled_from([('r', 'a', 'c'), ('r', 'A', 'Z'), ('r', '0', '9'), ('r', 'a', 'a'), ('r', 'B', 'b'),
                                      ('r', '+', '.')]))
    if posix:
        items.append(st.sampled_from(POSIX_NAMES).map(lambda n: ('p', n)))
    item = st.one_of(*items)
    sset = st.tuples(st.booleans(), st.lists(item, min_size=1, max_size=3)).map(lambda t: ('set', t[0], tuple(t[1])))
    atom = st.one_of(litc.map(lit), litc.map(lit), st.just(lit('.')), st.just(ANY), st.just(STAR), sset)

    def seq_of(d, budget):
        if d >= max_depth or not kinds:
            node = atom
        else:
            alt = st.deferred(lambda: seq_of(d + 1, max(1, budget // 2)))
            grp = st.tuples(st.sampled_from(kinds), st.lists(st.one_of(alt, alt, st.just(())), min_size=1, max_size=max_alts)
                            ).map(lambda t: ('ext', t[0], tuple(t[1])))
            node = st.one_of(atom, atom, atom, grp)
        return st.lists(node, min_size=0 if d else 1, max_size=max(1, budget)).map(lambda l: merge_stars(tuple(l)))

    base = seq_of(0, max_budget)
    if neg_exact_bias and '!' in kinds:
        # a `!(...)` in C01's exact position: top level, negation-free alternatives, literal tail
        inner_kinds = kinds.replace('!', '')
        inner = st_seq(max(2, max_budget // 2), max(1, max_depth - 1), max_alts, inner_kinds, alphabet, False, ranges, posix, set_alphabet) \
            if inner_kinds else st.lists(atom, max_size=3).map(tuple)
        head = st_seq(max(1, max_budget // 2), max_depth, max_alts, inner_kinds, alphabet, False, ranges, posix, set_alphabet) \
            if inner_kinds else st.lists(atom, max_size=3).map(tuple)
        neg = st.tuples(st.one_of(st.just(()), head), st.lists(st.one_of(inner, st.just(())), min_size=1, max_size=max_alts),
                        st.lists(litc.map(lit), max_size=3)).map(
            lambda t: merge_stars(tuple(t[0]) + (('ext', '!', tuple(t[1])),) + tuple(t[2])))
        return st.one_of(base, base, neg)
    return base


def st_pathpat(seg_strategy, max_segs=4, globstar=True, globstarlong=False):
    from hypothesis import strategies as st
    kinds = [seg_strategy, seg_strategy, seg_strategy]
    if globstar:
        kinds.append(st.just(GS))
    if globstarlong:
        kinds.append(st.just(GSL))
    seg = st.one_of(*kinds)
    return st.tuples(st.booleans(), st.lists(seg, min_size=1, max_size=max_segs), st.booleans(), st.sampled_from([1, 1, 1, 2])
                     ).map(lambda t: PathPat(t[0] and False, tuple(t[1]), t[2], t[3]))
