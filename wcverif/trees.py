"""Tree specs: a hand-designed catalogue, a Hypothesis strategy, materialisation and a lazily read model of the real tree."""
import os

from . import util

# kind, relative path[, link target]
CATALOGUE = [
    # 0: plain files and nested directories
    [('f', 'a'), ('f', 'b'), ('f', 'ab'), ('d', 'd'), ('f', 'd/a'), ('f', 'd/b'), ('d', 'd/e'), ('f', 'd/e/a'), ('d', 'empty')],
    # 1: hidden files and directories at several depths
    [('f', 'a'), ('f', '.h'), ('d', '.hd'), ('f', '.hd/a'), ('f', '.hd/.h'), ('d', 'd'), ('f', 'd/.h'), ('d', 'd/.hd'), ('f', 'd/.hd/a'), ('f', 'd/a')],
    # 2: symlinks to file, directory, hidden directory, nowhere
    [('f', 'a'), ('d', 'd'), ('f', 'd/a'), ('d', 'd/e'), ('f', 'd/e/b'), ('l', 'lf', 'a'), ('l', 'ld', 'd'), ('l', 'dang', 'nowhere'),
     ('d', '.hd'), ('f', '.hd/a'), ('l', 'lh', '.hd'), ('l', 'd/e/lf', '../a')],
    # 3: symlink cycle to an ancestor and to a sibling (only used when links are not followed by `**`)
    [('f', 'a'), ('d', 'd'), ('f', 'd/a'), ('l', 'd/up', '..'), ('d', 'd/e'), ('l', 'd/e/sib', '../../d'), ('f', 'd/e/a')],
    # 4: mixed case names (case-sensitive file system)
    [('f', 'Abc'), ('f', 'abc'), ('d', 'Dir'), ('f', 'Dir/a'), ('f', 'Dir/A'), ('d', 'x'), ('f', 'x/Y'), ('f', 'UP')],
    # 5: names containing metacharacters
    [('f', '[a]'), ('f', 'a*'), ('f', 'a'), ('d', 'd[1]'), ('f', 'd[1]/a'), ('f', '!x'), ('f', '-x'), ('f', '{a,b}'), ('f', 'a|b'), ('f', 'a b')],
    # 6: nested same-named folders
    [('d', 'a'), ('d', 'a/a'), ('d', 'a/a/a'), ('f', 'a/a/a/a'), ('f', 'a/b'), ('f', 'a/a/b'), ('d', 'b'), ('d', 'b/a'), ('f', 'b/a/a')],
    # 7: deep chain with one file per level and a hidden level
    [('f', 'p/f'), ('f', 'p/q/f'), ('f', 'p/q/r/f'), ('f', 'p/q/r/s/f'), ('f', 'p/.q/f'), ('f', 'p/q/.r/f')],
    # 8: dot-heavy names
    [('f', 'a.b'), ('f', 'a.'), ('f', '.a.'), ('f', '..a'), ('f', 'a..b'), ('d', 'd.e'), ('f', 'd.e/a.b'), ('f', '...')],
    # 9: symlinked directory as an intermediate literal and dangling link in a sub-directory
    [('d', 'real'), ('f', 'real/a'), ('d', 'real/sub'), ('f', 'real/sub/a'), ('l', 'link', 'real'), ('l', 'real/dang', 'missing'),
     ('l', 'real/sub/back', '../..'), ('f', 'b')],
    # 10: files and directories with equal prefixes, digits
    [('f', 'x1'), ('f', 'x2'), ('f', 'x10'), ('d', 'x'), ('f', 'x/x1'), ('d', 'x/x'), ('f', 'x/x/x1'), ('f', '1'), ('f', '2')],
    # 11: only hidden entries
    [('f', '.a'), ('d', '.d'), ('f', '.d/.a'), ('f', '.d/a'), ('l', '.l', '.d')],
    # 12: sibling directories that differ only in case, with several levels below them
    [('f', 'top/pkg/src/lib/mod.py'), ('f', 'top/PKG/src/lib/mod.py'), ('f', 'top/pkg/src/lib/notes.txt'), ('f', 'top/PKG/src/lib/notes.txt'),
     ('f', 'top/pkg/a'), ('f', 'top/Pkg/src/x'), ('f', 'TOP/pkg/src/lib/mod.py')],
    # 13: two symmetric branches, each with a symlink to a third directory tree (no cycle)
    [('f', 'o/d/x/f'), ('f', 'p/d/x/f'), ('f', 'q/d/x/f'), ('l', 'p/lnk', '../o'), ('l', 'q/lnk', '../o'), ('f', 'o/d/f'), ('f', 'p/f')],
    # 14: names containing a newline (directories and files): `.` and `$` in a regex do not mean "any character" / "end of string"
    [('d', 'a\nb'), ('f', 'a\nb/x'), ('f', 'n\n'), ('d', 'd'), ('f', 'd/\n'), ('f', '\nlead'), ('d', 't\n'), ('f', 't\n/y'), ('f', 'plain')],
    # 15: names that end in a backslash (an ordinary character on POSIX, never a separator) or in `\.`
    [('f', 'tail\\'), ('f', 'plain'), ('d', 'd'), ('f', 'd/x\\'), ('d', 'q\\'), ('f', 'q\\/z'), ('d', 'd\\.'), ('f', 'd\\./y'), ('f', 'a\\b')],
    # 16: links that cannot be resolved: one that points to itself, two that point to each other, a dangling one (entries all the same)
    [('f', 'a'), ('l', 'loop', 'loop'), ('d', 'd'), ('f', 'd/x'), ('l', 'd/l2', '../d/l2'), ('l', 'p', 'q'), ('l', 'q', 'p'), ('l', 'dang', 'nowhere'), ('f', 'lx')],
]

NAME_POOL = ['a', 'b', 'A', 'ab', 'a.b', '.h', '.hd', 'x1', 'd', 'e', '[a]', 'a*']


def make_follow_safe(root):
    """Make link-following walks finite: remove every symlink-to-directory whose target subtree (walked without
    following links) itself contains a symlink to a directory (this includes every cycle).  Returns the number removed."""
    removed = 0
    links = []
    for base, dirs, files in os.walk(root, followlinks=False):
        for n in dirs + files:
            p = os.path.join(base, n)
            if os.path.islink(p) and os.path.isdir(p):
                links.append(p)
    for link in links:
        target = os.path.realpath(link)
        bad = False
        if not target.startswith(os.path.realpath(root) + os.sep) and target != os.path.realpath(root):
            bad = True        # never walk out of the sandbox tree
        else:
            for base, dirs, files in os.walk(target, followlinks=False):
                for n in dirs + files:
                    q = os.path.join(base, n)
                    if os.path.islink(q) and os.path.isdir(q):
                        bad = True
                        break
                if bad:
                    break
        if bad:
            os.unlink(link)
            removed += 1
    return removed


def st_tree(allow_cycles=True, max_entries=12):
    """Hypothesis strategy for TreeSpecs."""
    from hypothesis import strategies as st
    names = st.sampled_from(NAME_POOL)

    @st.composite
    def tree(draw):
        n = draw(st.integers(2, max_entries))
        dirs = ['']
        spec = []
        used = set()
        for _ in range(n):
            parent = draw(st.sampled_from(dirs))
            if parent.count('/') >= 3:
                parent = ''
            name = draw(names)
            path = (parent + '/' + name) if parent else name
            if path in used:
                continue
            used.add(path)
            kind = draw(st.sampled_from(['f', 'f', 'd', 'd', 'l']))
            if kind == 'f':
                spec.append(('f', path))
            elif kind == 'd':
                spec.append(('d', path))
                dirs.append(path)
            else:
                depth = path.count('/')
                choices = ['nowhere', name + 'x']
                for e in spec:
                    rel = os.path.relpath(e[1], os.path.dirname(path) or '.')
                    choices.append(rel)
                if allow_cycles:
                    choices += ['..', '.'] + (['../..'] if depth >= 1 else [])
                spec.append(('l', path, draw(st.sampled_from(choices))))
        if not spec:
            spec.append(('f', 'a'))
        return spec
    return tree()


class Model:
    """The real directory, read lazily with os.scandir/lstat (so the oracle never disagrees with the OS)."""

    def __init__(self, root, max_listings=4000):
        self.root = root
        self._ls = {}
        self.listings = 0
        self.max_listings = max_listings

    def listdir(self, rel):
        """[(name, is_dir following links, is_symlink)] or None if not a listable directory."""
        if rel in self._ls:
            return self._ls[rel]
        self.listings += 1
        if self.listings > self.max_listings:
            raise util.HarnessBudget('reference walker listing ceiling')
        path = os.path.join(self.root, rel) if rel else self.root
        try:
            with os.scandir(path) as it:
                out = []
                for e in it:
                    try:
                        out.append((e.name, e.is_dir(), e.is_symlink()))
                    except OSError:
                        out.append((e.name, False, e.is_symlink()))
                out.sort()
        except OSError:
            out = None
        self._ls[rel] = out
        return out

    def lexists(self, rel):
        return os.path.lexists(os.path.join(self.root, rel))

    def isdir(self, rel):
        return os.path.isdir(os.path.join(self.root, rel))

    def islink(self, rel):
        return os.path.islink(os.path.join(self.root, rel))

    def all_entries(self, follow=False, max_depth=6):
        """Every entry path below the root (not following symlinked directories unless asked)."""
        out = []

        def rec(rel, depth):
            ls = self.listdir(rel)
            if not ls or depth > max_depth:
                return
            for name, is_dir, is_link in ls:
                p = (rel + '/' + name) if rel else name
                out.append((p, is_dir, is_link))
                if is_dir and (follow or not is_link):
                    rec(p, depth + 1)
        rec('', 0)
        return out
