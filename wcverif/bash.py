"""Bash 5.2 as an executable oracle (pathname expansion, [[ == ]] matching, brace expansion) with normalisation."""
import os
import re
import shutil
import subprocess

from . import ast as A

BASH = shutil.which('bash')
_SAFE = re.compile(r'^[A-Za-z0-9_./*?\[\]()|@+!\\^:=,{}\-]+$')


def available():
    return BASH is not None


def version():
    if not BASH:
        return None
    try:
        return subprocess.run([BASH, '-c', 'echo $BASH_VERSION'], capture_output=True, text=True, timeout=10).stdout.strip()
    except Exception:
        return None


def safe_text(text):
    """Only glob syntax may reach the shell: no $, backquote, ;, &, <, >, quotes, spaces, ~, newline."""
    return bool(_SAFE.match(text)) and not text.startswith('~') and '$' not in text


def in_fragment(pp):
    """The syntax wcmatch and Bash share and on which Bash itself is well behaved: negation-free, no empty
    alternatives, no `***`, at least one magic segment."""
    magic = False
    for s in pp.segs:
        if s == A.GSL:
            return False
        if s == A.GS:
            magic = True
            continue
        for n in A.walk(s):
            if n[0] == 'ext':
                if n[1] == '!':
                    return False
                if any(len(a) == 0 for a in n[2]):
                    return False
            if n[0] in ('any', 'star', 'set', 'ext'):
                magic = True
            if n[0] == 'set':
                for it in n[2]:
                    if it[0] == 'c' and it[1] in '/\n':
                        return False
    return magic


def glob(root, text, globstar=False, dotglob=False, extglob=True):
    """Bash pathname expansion of `text` in directory root -> list of words (nullglob: no match = empty list)."""
    if not safe_text(text):
        raise ValueError('unsafe text for the shell: %r' % text)
    opts = ['-O', 'nullglob']
    if globstar:
        opts += ['-O', 'globstar']
    if extglob:
        opts += ['-O', 'extglob']
    if dotglob:
        opts += ['-O', 'dotglob']
    script = 'cd "$1" || exit 3; printf "%s\\0" ' + text
    r = subprocess.run([BASH, '--norc', '--noprofile'] + opts + ['-c', script, '_', root], capture_output=True, timeout=30,
                       env={'PATH': os.environ.get('PATH', '/usr/bin:/bin'), 'LC_ALL': 'C'})
    if r.returncode != 0:
        raise RuntimeError('bash failed: %r' % r.stderr[-200:])
    out = r.stdout.decode('utf-8', 'surrogateescape').split('\0')
    return [w for w in out if w != '']


def matches(name, text, extglob=True):
    """[[ name == pattern ]] (string matching, no file system)."""
    if not safe_text(text):
        raise ValueError('unsafe text for the shell: %r' % text)
    opts = ['-O', 'extglob'] if extglob else []
    r = subprocess.run([BASH, '--norc', '--noprofile'] + opts + ['-c', '[[ $1 == ' + text + ' ]]', '_', name], capture_output=True,
                       timeout=30, env={'PATH': os.environ.get('PATH', '/usr/bin:/bin'), 'LC_ALL': 'C'})
    if r.returncode not in (0, 1):
        raise RuntimeError('bash failed: %r' % r.stderr[-200:])
    return r.returncode == 0


def matches_many(names, text, extglob=True):
    """One shell for many names: returns the set of names for which [[ name == pattern ]] holds."""
    if not safe_text(text):
        raise ValueError('unsafe text for the shell: %r' % text)
    opts = ['-O', 'extglob'] if extglob else []
    script = 'for n in "$@"; do if [[ $n == ' + text + ' ]]; then printf "%s\\0" "$n"; fi; done'
    r = subprocess.run([BASH, '--norc', '--noprofile'] + opts + ['-c', script, '_'] + list(names), capture_output=True, timeout=60,
                       env={'PATH': os.environ.get('PATH', '/usr/bin:/bin'), 'LC_ALL': 'C'})
    if r.returncode != 0:
        raise RuntimeError('bash failed: %r' % r.stderr[-200:])
    return set(w for w in r.stdout.decode('utf-8', 'surrogateescape').split('\0') if w != '')


def brace_expand(text):
    if not safe_text(text):
        raise ValueError('unsafe text for the shell: %r' % text)
    r = subprocess.run([BASH, '--norc', '--noprofile', '-c', 'set -f; printf "%s\\0" ' + text], capture_output=True, timeout=30,
                       env={'PATH': os.environ.get('PATH', '/usr/bin:/bin'), 'LC_ALL': 'C'})
    if r.returncode != 0:
        raise RuntimeError('bash failed: %r' % r.stderr[-200:])
    return [w for w in r.stdout.decode().split('\0') if w != '']
