"""Reference semantics for wcmatch patterns, written from docs/src/markdown/fnmatch.md, glob.md and posix.md.

No regular expressions, no code shared with wcmatch.  Three-valued verdicts: MUST / MUSTNOT / EITHER (DESIGN.md 1.1, 2.2).
"""
from . import ast as A

MUST, MUSTNOT, EITHER = 'MUST', 'MUSTNOT', 'EITHER'

_PUNCT = set('!"#$%&\'()*+,-./:;<=>?@[\\]^_`{|}~')
POSIX = {
    'alnum': lambda c: c < '\x80' and c.isalnum(),
    'alpha': lambda c: c < '\x80' and c.isalpha(),
    'ascii': lambda c: c < '\x80',
    'blank': lambda c: c in ' \t',
    'cntrl': lambda c: c < ' ' or c == '\x7f',
    'digit': lambda c: '0' <= c <= '9',
    'graph': lambda c: '!' <= c <= '~',
    'lower': lambda c: 'a' <= c <= 'z',
    'print': lambda c: ' ' <= c <= '~',
    'punct': lambda c: c in _PUNCT,
    'space': lambda c: c in ' \t\r\n\v\f',
    'upper': lambda c: 'A' <= c <= 'Z',
    'word': lambda c: (c < '\x80' and c.isalnum()) or c == '_',
    'xdigit': lambda c: c in '0123456789abcdefABCDEF',
}


def _swap(c):
    if 'a' <= c <= 'z':
        return c.upper()
    if 'A' <= c <= 'Z':
        return c.lower()
    return c


def set_has(node, c, icase=False):
    _, neg, items = node

    def one(ch):
        for it in items:
            if it[0] == 'c':
                if it[1] == ch:
                    return True
            elif it[0] == 'r':
                if it[1] <= ch <= it[2]:
                    return True
            elif POSIX[it[1]](ch):
                return True
        return False
    r = one(c) or (icase and (one(_swap(c)) or (icase == 'unicode' and (one(c.lower()) or one(c.upper())))))
    return r != neg


class Matcher:
    """Set-of-end-positions evaluation of a Seq against one string (a name, or one path segment).

    policy: 'plain'   no restriction on dots
            'lenient' the character at position 0, if it is '.', can only be consumed by ('lit', '.')
            'strict'  as lenient, and no wildcard/group may be passed at zero width before that literal
    seps: characters no wildcard may consume (fnmatch mode: none)
    """

    def __init__(self, s, policy='plain', icase=False, seps=''):
        self.s = s
        self.n = len(s)
        self.policy = policy
        self.icase = icase
        self.seps = seps
        self.protect = policy != 'plain' and s[:1] == '.'
        self.memo = {}

    def full(self, seq):
        return any(e == self.n for e, _ in self.ends_seq(seq, 0, True))

    def ends_seq(self, seq, p, clean):
        key = (seq, p, clean)
        r = self.memo.get(key)
        if r is not None:
            return r
        cur = {(p, clean)}
        for node in seq:
            nxt = set()
            for q, cl in cur:
                nxt |= self.ends_node(node, q, cl)
            cur = nxt
            if not cur:
                break
        self.memo[key] = cur
        return cur

    def _dirty(self, p, clean):
        # passing a wildcard or group at zero width while standing on the protected dot
        return False if (p == 0 and self.protect) else clean

    def ends_node(self, node, p, clean):
        s, n = self.s, self.n
        k = node[0]
        if k == 'lit':
            if p < n:
                c = node[1]
                if s[p] == c or (self.icase and (_swap(s[p]) == c or (self.icase == 'unicode' and s[p].lower() == c.lower()))):
                    if c == '.' and p == 0 and self.protect and self.policy == 'strict' and not clean:
                        return set()
                    return {(p + 1, clean)}
            return set()
        blocked = self.protect and p == 0
        if k == 'any':
            if p < n and not blocked and s[p] not in self.seps:
                return {(p + 1, clean)}
            return set()
        if k == 'set':
            if p < n and not blocked and s[p] not in self.seps and set_has(node, s[p], self.icase):
                return {(p + 1, clean)}
            return set()
        if k == 'star':
            out = {(p, self._dirty(p, clean))}
            if blocked:
                return out
            q = p
            while q < n and s[q] not in self.seps:
                q += 1
                out.add((q, clean))
            return out
        if k == 'ext':
            kind, alts = node[1], node[2]
            if kind == '!':
                out = set()
                for q in range(p, n + 1):
                    if q > p and (blocked or s[q - 1] in self.seps):
                        break
                    piece = s[p:q]
                    # the alternatives are matched against the piece on its own; a piece that starts the
                    # segment keeps the dot protection, elsewhere there is none
                    sub = Matcher(piece, self.policy if p == 0 else 'plain', self.icase, self.seps)
                    if not any(sub.full(a) for a in alts):
                        out.add((q, self._dirty(p, clean) if q == p else clean))
                return out
            one = set()
            for a in alts:
                one |= self.ends_seq(a, p, clean)
            if kind == '@':
                return one
            zero = (p, self._dirty(p, clean))
            if kind == '?':
                return one | {zero}
            seen = set(one)
            frontier = set(one)
            while frontier:
                new = set()
                for q, cl in frontier:
                    for a in alts:
                        for r in self.ends_seq(a, q, cl):
                            if r not in seen:
                                seen.add(r)
                                new.add(r)
                frontier = new
            if kind == '*':
                seen.add(zero)
            return seen
        raise ValueError(node)


def match_plain(seq, s, icase=False, seps=''):
    return Matcher(s, 'plain', icase, seps).full(seq)


def nullable(seq):
    return Matcher('', 'plain').full(seq)


def relax_neg(seq):
    """Over-approximation: every `!(...)` becomes "any span" (a star, which never consumes a protected dot)."""
    out = []
    for n in seq:
        if n[0] == 'ext':
            if n[1] == '!':
                out.append(A.STAR)
                continue
            n = ('ext', n[1], tuple(relax_neg(a) for a in n[2]))
        out.append(n)
    return tuple(out)


def core_verdict(seq, s, protected, icase=False, seps=''):
    """Verdict of one Seq against one string; `protected` = a leading dot of s needs a written dot.

    Case-insensitive matching is decided for ASCII only: if full Unicode folding would change the answer the
    verdict is EITHER (the property speaks of ASCII case; `re.IGNORECASE` folds more)."""
    if icase is True:
        v = _core_verdict(seq, s, protected, 'ascii', seps)
        if s.isascii() and all(n[0] != 'lit' or n[1] < '\x80' for n in A.walk(seq)):
            return v
        return v if _core_verdict(seq, s, protected, 'unicode', seps) == v else EITHER
    return _core_verdict(seq, s, protected, icase, seps)


def _core_verdict(seq, s, protected, icase=False, seps=''):
    if not A.neg_exact(seq):
        # outside C01's exact fragment for negation only the over-approximation is decided
        hi = Matcher(s, 'lenient' if protected else 'plain', icase, seps).full(relax_neg(seq))
        return EITHER if hi else MUSTNOT
    if not protected:
        return MUST if Matcher(s, 'plain', icase, seps).full(seq) else MUSTNOT
    if Matcher(s, 'strict', icase, seps).full(seq):
        return MUST
    return EITHER if Matcher(s, 'lenient', icase, seps).full(seq) else MUSTNOT


def seg_nullable(seq):
    """Undecided zone of C02: a segment pattern that can match the empty string *through a group* (`?(b)`, `@(|a)`, `?(x)*`).
    A segment that begins with `*` is not in the zone: the statement itself says `*` never matches an empty segment."""
    if not seq or seq[0] == A.STAR:
        return False
    if seq[0][0] == 'ext' and seq[0][1] == '!':
        # a segment that begins with a negation is not in the zone either: like a leading `*`, it must consume at least one
        # character of its segment ("every segment of the path is matched by exactly one segment pattern")
        return False
    return nullable(seq)


def name_verdict(seq, name, dot, icase=False):
    """fnmatch-mode verdict for a whole name (C01 for non-hidden names / DOTMATCH, C03 for hidden names)."""
    if name == '':
        return MUSTNOT
    return core_verdict(seq, name, (not dot) and name[0] == '.', icase)


# ------------------------------------------------------------------------------------------------ path mode

def split_path(path, seps='/'):
    """-> (absolute, segments, trailing_sep).  Separator runs count as one."""
    segs = []
    cur = ''
    for c in path:
        if c in seps:
            if cur:
                segs.append(cur)
            cur = ''
        else:
            cur += c
    if cur:
        segs.append(cur)
    absolute = path[:1] != '' and path[0] in seps
    trail = bool(segs) and path[-1] in seps
    return absolute, segs, trail


def seg_verdict(seq, seg, dot, nodotdir=False, icase=False):
    """Verdict for one pattern segment against one (non-empty, separator-free) path segment."""
    if seg in ('.', '..'):
        if nodotdir:
            if A.is_literal(seq):
                return MUST if A.literal_text(seq) == seg else MUSTNOT
            return MUSTNOT
        return core_verdict(seq, seg, True, icase)      # hidden rule forced, even under DOTGLOB
    return core_verdict(seq, seg, (not dot) and seg[0] == '.', icase)


def _and(a, b):
    if a == MUSTNOT or b == MUSTNOT:
        return MUSTNOT
    if a == EITHER or b == EITHER:
        return EITHER
    return MUST


def _or(a, b):
    if a == MUST or b == MUST:
        return MUST
    if a == EITHER or b == EITHER:
        return EITHER
    return MUSTNOT


def gs_ok(seg, dot):
    if seg in ('.', '..'):
        return False
    return dot or seg[0] != '.'


def path_verdict(pp, path, dot=False, globstar=False, globstarlong=False, matchbase=False, nodotdir=False, nodir=False,
                 icase=False, seps='/', extmatchbase=False):
    """Three-valued verdict of globmatch(path, render_path(pp), flags) without REALPATH (DESIGN.md 2.2)."""
    if path == '':
        return MUSTNOT
    pab, psegs, ptrail = split_path(path, seps)
    if not psegs:
        return EITHER          # a path made only of separators
    segs = []
    for s in pp.segs:
        if s == A.GS:
            segs.append(A.GS if (globstar or globstarlong) else (A.STAR,))
        elif s == A.GSL:
            segs.append(A.GS if globstarlong else (A.STAR,))
        else:
            segs.append(s)
    # consecutive globstars act as one
    merged = []
    for s in segs:
        if s == A.GS and merged and merged[-1] == A.GS:
            continue
        merged.append(s)
    segs = merged
    implicit = False
    either_on_must = False
    if extmatchbase and not pp.absolute:
        # pathlib match/rglob: implicit recursive prefix in front of any relative pattern
        if segs[0] == A.GS:
            implicit = True
            either_on_must = True
        else:
            segs = [A.GS] + segs
            implicit = True
    elif matchbase and not pp.absolute and len(segs) == 1 and not pp.trail:
        if segs[0] == A.GS:
            # the implicit prefix meets the pattern's own globstar: K5/K17 zone, decided only in the negative
            implicit = True
        else:
            segs = [A.GS] + segs
            implicit = True
    if pp.absolute != pab:
        if not (pab and not pp.absolute and segs and segs[0] == A.GS):
            if not pp.absolute and segs and segs[0] != A.GS and seg_nullable(segs[0]):
                return EITHER      # relative pattern with a nullable first segment vs absolute path
            return MUSTNOT
    nseg = len(segs)
    np_ = len(psegs)
    memo = {}

    def rec(i, j, must_take):
        """must_take: the globstar at i (if any) must absorb at least one segment."""
        key = (i, j, must_take)
        if key in memo:
            return memo[key]
        if i == nseg:
            r = MUST if j == np_ else MUSTNOT
        elif segs[i] == A.GS:
            r = MUSTNOT if must_take else rec(i + 1, j, False)
            k = j
            while r != MUST and k < np_ and gs_ok(psegs[k], dot):
                k += 1
                r = _or(r, rec(i + 1, k, False))
        elif j < np_:
            r = _and(seg_verdict(segs[i], psegs[j], dot, nodotdir, icase), rec(i + 1, j + 1, False))
            if r != MUST and seg_nullable(segs[i]) and rec(i + 1, j, False) != MUSTNOT:
                r = _or(r, EITHER)     # nullable segment pattern aligned with "no segment"
        else:
            r = MUSTNOT
            if seg_nullable(segs[i]) and rec(i + 1, j, False) != MUSTNOT:
                r = EITHER
        memo[key] = r
        return r

    # a final globstar after a written separator matches zero segments only if the path has that separator
    final_gs_needs_sep = nseg >= 2 and segs[-1] == A.GS and not ptrail
    if final_gs_needs_sep:
        # evaluate with the last globstar forced to take >= 1 segment
        def rec_last(i, j):
            key = ('L', i, j)
            if key in memo:
                return memo[key]
            if i == nseg - 1:
                rest = psegs[j:]
                r = MUST if rest and all(gs_ok(x, dot) for x in rest) else MUSTNOT
            elif segs[i] == A.GS:
                r = rec_last(i + 1, j)
                k = j
                while r != MUST and k < np_ and gs_ok(psegs[k], dot):
                    k += 1
                    r = _or(r, rec_last(i + 1, k))
            elif j < np_:
                r = _and(seg_verdict(segs[i], psegs[j], dot, nodotdir, icase), rec_last(i + 1, j + 1))
                if r != MUST and seg_nullable(segs[i]) and rec_last(i + 1, j) != MUSTNOT:
                    r = _or(r, EITHER)
            else:
                r = MUSTNOT
                if seg_nullable(segs[i]) and rec_last(i + 1, j) != MUSTNOT:
                    r = EITHER
            memo[key] = r
            return r
        r = rec_last(0, 0)
    else:
        r = rec(0, 0, False)
    if r == MUSTNOT:
        return MUSTNOT
    if pp.trail and not ptrail and not (segs and segs[-1] == A.GS):
        return MUSTNOT
    if nodir:
        if ptrail or psegs[-1] in ('.', '..'):
            return MUSTNOT
    if implicit and (segs == [A.GS] or either_on_must):
        return EITHER if r == MUST else r
    return r
