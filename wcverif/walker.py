"""Reference glob walker (DESIGN.md 2.5): interprets a PathPat segment by segment against real directory listings.

ref_glob(model, pp, opts) -> dict path -> MUST | EITHER  (paths spelled as glob() spells them, relative to the root)
"""
from . import ast as A
from . import ref as R
from . import util

MUST, EITHER = R.MUST, R.EITHER


class Opts:
    def __init__(self, **kw):
        self.dot = kw.get('dot', False)
        self.globstar = kw.get('globstar', False)
        self.globstarlong = kw.get('globstarlong', False)
        self.follow = kw.get('follow', False)
        self.matchbase = kw.get('matchbase', False)
        self.extmatchbase = kw.get('extmatchbase', False)
        self.nodir = kw.get('nodir', False)
        self.mark = kw.get('mark', False)
        self.scandotdir = kw.get('scandotdir', False)
        self.nodotdir = kw.get('nodotdir', False)
        self.icase = kw.get('icase', False)


def _and(a, b):
    return MUST if a == MUST and b == MUST else EITHER


def norm_segments(pp, o):
    """-> list of ('seq', Seq) | ('gs', long: bool); consecutive globstars merged (the last one decides the kind)."""
    segs = []
    for s in pp.segs:
        if s == A.GS:
            kind = ('gs', False) if (o.globstar or o.globstarlong) else ('seq', (A.STAR,))
        elif s == A.GSL:
            kind = ('gs', True) if o.globstarlong else ('seq', (A.STAR,))
        else:
            kind = ('seq', s)
        if kind[0] == 'gs' and segs and segs[-1][0] == 'gs':
            segs[-1] = kind
        else:
            segs.append(kind)
    return segs


def ref_glob(model, pp, o):
    """Returns (results: dict path->verdict, undecided: bool).  undecided=True marks the MATCHBASE-with-leading-globstar
    zone (K5/K17) in which only the soundness half is judged by callers."""
    segs = norm_segments(pp, o)
    undecided = False
    implicit = (o.extmatchbase and not pp.absolute) or (o.matchbase and not pp.absolute and len(pp.segs) == 1 and not pp.trail)
    if o.matchbase and not pp.absolute and not pp.trail and len(pp.segs) > 1 and len(segs) == 1 and segs[0][0] == 'gs':
        # `***/**/***`: glob merges the run into one part and then treats the pattern as separator-free (K17 zone)
        implicit = True
    if implicit:
        if segs[0][0] == 'gs':
            undecided = True
        else:
            segs = [('gs', bool(o.globstarlong and o.follow))] + segs
    results = {}
    nodotdir = o.nodotdir or not o.scandotdir
    if pp.absolute:
        raise ValueError('absolute patterns are handled by the caller (prefix the root)')

    def emit(path, verdict, is_dir):
        if o.nodir and (is_dir or path.split('/')[-1] in ('.', '..') or path.endswith('/')):
            return
        if (pp.trail or (o.mark and is_dir)) and not path.endswith('/'):
            path = path + '/'
        if results.get(path) != MUST:
            results[path] = verdict

    def join(cur, name):
        return (cur + '/' + name) if cur else name

    def match_in(cur, seq, need_dir):
        """Entries of directory `cur` matched by one segment pattern -> [(name, verdict, is_dir)]."""
        ls = model.listdir(cur if cur else '')
        if ls is None:
            return []
        out = []
        entries = [('.', True, False), ('..', True, False)] + ls
        lit = A.literal_text(seq) if A.is_literal(seq) else None
        for name, is_dir, _is_link in entries:
            if need_dir and not is_dir:
                continue
            if lit is not None:
                ok = (name.lower() == lit.lower()) if o.icase else (name == lit)
                if ok:
                    out.append((name, MUST, is_dir))
                continue
            v = R.seg_verdict(seq, name, o.dot, nodotdir if name in ('.', '..') else False, o.icase)
            if v != R.MUSTNOT:
                out.append((name, v, is_dir))
        return out

    def deep_dirs(cur, follow):
        """Directories reachable from cur by `**` (cur itself excluded): non-hidden, symlinks only when followed."""
        ls = model.listdir(cur if cur else '')
        if ls is None:
            return
        for name, is_dir, is_link in ls:
            if not is_dir:
                continue
            if not o.dot and name.startswith('.'):
                continue
            if is_link and not follow:
                continue
            p = join(cur, name)
            yield p
            yield from deep_dirs(p, follow)

    def step(cur, i, verdict):
        kind = segs[i]
        last = i == len(segs) - 1
        if kind[0] == 'gs':
            follow = (o.follow and not o.globstarlong) or kind[1]
            if last:
                if cur:
                    emit(cur + '/', verdict, True)
                bases = [cur] + list(deep_dirs(cur, follow))
                for b in bases:
                    ls = model.listdir(b if b else '')
                    if ls is None:
                        continue
                    for name, is_dir, _l in ls:
                        if not o.dot and name.startswith('.'):
                            continue
                        if pp.trail and not is_dir:
                            continue
                        emit(join(b, name), verdict, is_dir)
            else:
                nxt = segs[i + 1]
                nlast = i + 1 == len(segs) - 1
                need_dir = (not nlast) or pp.trail
                bases = [cur] + list(deep_dirs(cur, follow))
                for b in bases:
                    for name, v, is_dir in match_in(b, nxt[1], need_dir):
                        p = join(b, name)
                        if nlast:
                            emit(p, _and(verdict, v), is_dir)
                        else:
                            step(p, i + 2, _and(verdict, v))
            return
        need_dir = (not last) or pp.trail
        for name, v, is_dir in match_in(cur, kind[1], need_dir):
            p = join(cur, name)
            if last:
                emit(p, _and(verdict, v), is_dir)
            else:
                step(p, i + 1, _and(verdict, v))

    step('', 0, MUST)
    return results, undecided


def strip_sep(p):
    return p.rstrip('/') if len(p) > 1 and p.rstrip('/') else p


def norm_dup(p):
    """Collapse duplicate separators (glob() spells results with single separators except where the pattern was literal)."""
    out = []
    for c in p:
        if c == '/' and out and out[-1] == '/':
            continue
        out.append(c)
    return ''.join(out)
