"""Runner: shards a check over worker processes, merges outcomes, writes evidence and replay files.

Exit codes: 0 held (possibly with KNOWN-FINDING lines), 1 violation, 2 harness error.
"""
import os
import sys
import json
import time
import hashlib
import argparse
import importlib
import traceback
import collections
import multiprocessing

from . import VERIF_DIR, REPO, bootstrap

NPROC = int(os.environ.get('VERIF_JOBS', '16'))


def h64(obj):
    """Stable 64-bit hash of a JSON-able / repr-able object."""
    return int.from_bytes(hashlib.blake2b(repr(obj).encode('utf-8', 'backslashreplace'), digest_size=8).digest(), 'big')


class HarnessError(Exception):
    """Raised when the machinery (not wcmatch) is at fault."""


class Outcome:
    """Partial result of one shard (picklable, mergeable)."""

    MAX_SAMPLES = 6
    MAX_VIOL = 24

    def __init__(self):
        self.evaluations = 0
        self.either = 0
        self.nt_count = 0            # non-trivial cases counted in shards that partition their space
        self.nt_hashes = set()       # non-trivial cases of random shards (deduplicated across shards)
        self.samples = []
        self.stats = collections.Counter()
        self.known = collections.Counter()
        self.known_examples = {}
        self.violations = []         # list of (size, case)
        self.notes = []
        self.exhaustive = None
        self.errors = []             # harness errors raised inside the shard

    def sample(self, case, force=False):
        if force or len(self.samples) < self.MAX_SAMPLES:
            self.samples.append(case)

    def nontrivial(self, key):
        self.nt_hashes.add(h64(key))

    def violation(self, case, size=None, bucket=None):
        """Keep the smallest case per bucket (root-cause signature), at most MAX_VIOL buckets."""
        if size is None:
            size = len(json.dumps(case, default=repr))
        bucket = repr(bucket)
        for i, (sz, b, _c) in enumerate(self.violations):
            if b == bucket:
                if size < sz:
                    self.violations[i] = (size, bucket, case)
                break
        else:
            self.violations.append((size, bucket, case))
        self.violations.sort(key=lambda x: x[0])
        del self.violations[self.MAX_VIOL:]

    def known_hit(self, fid, case=None):
        self.known[fid] += 1
        if case is not None and fid not in self.known_examples:
            self.known_examples[fid] = case

    def merge(self, other):
        self.evaluations += other.evaluations
        self.either += other.either
        self.nt_count += other.nt_count
        self.nt_hashes |= other.nt_hashes
        for s in other.samples:
            if len(self.samples) < 12:
                self.samples.append(s)
        self.stats.update(other.stats)
        self.known.update(other.known)
        for k, v in other.known_examples.items():
            self.known_examples.setdefault(k, v)
        for sz, b, c in other.violations:
            self.violation(c, sz, b if b != 'None' else None)
        self.notes.extend(n for n in other.notes if n not in self.notes)
        self.errors.extend(other.errors)
        if other.exhaustive is not None:
            self.exhaustive = other.exhaustive if self.exhaustive is None else (self.exhaustive and other.exhaustive)


def _run_shard(args):
    modname, desc = args
    if os.environ.get('WCVERIF_DEBUG'):
        import faulthandler
        import signal
        faulthandler.register(signal.SIGUSR1, all_threads=True)
    try:
        bootstrap()
        mod = importlib.import_module(modname)
        out = mod.run_shard(desc)
        if not isinstance(out, Outcome):
            raise HarnessError('run_shard returned %r' % (out,))
        return out
    except BaseException:
        o = Outcome()
        o.errors.append('shard %r: %s' % (desc.get('name', desc) if isinstance(desc, dict) else desc,
                                           traceback.format_exc()))
        return o


def load_findings():
    path = os.path.join(VERIF_DIR, 'known_findings.json')
    if not os.path.exists(path):
        return []
    with open(path) as f:
        return json.load(f)['findings']


def write_replay(prop, case):
    d = os.path.join(VERIF_DIR, 'replays', prop)
    os.makedirs(d, exist_ok=True)
    blob = json.dumps(case, indent=1, sort_keys=True, default=repr)
    name = hashlib.sha1(blob.encode()).hexdigest()[:16] + '.json'
    path = os.path.join(d, name)
    with open(path, 'w') as f:
        f.write(blob + '\n')
    return os.path.relpath(path, VERIF_DIR)


def main(argv=None):
    ap = argparse.ArgumentParser(prog='vcheck')
    ap.add_argument('prop')
    ap.add_argument('--tier', default=os.environ.get('VERIF_TIER') or 'quick', choices=['quick', 'thorough'])
    ap.add_argument('--replay')
    ap.add_argument('--collect', action='store_true', help='census mode: report all buckets, never exit 1')
    ap.add_argument('--jobs', type=int, default=NPROC)
    ap.add_argument('--scale', type=float, default=float(os.environ.get('VERIF_SCALE', '1')))
    a = ap.parse_args(argv)
    prop = a.prop.upper()
    try:
        seed = int(os.environ.get('VERIF_SEED', '1') or '1')
    except ValueError:
        seed = h64(os.environ.get('VERIF_SEED')) % (2 ** 31)
    t0 = time.time()
    try:
        wcfile = bootstrap()
        modname = 'wcverif.checks.' + prop.lower()
        mod = importlib.import_module(modname)
    except Exception:
        traceback.print_exc()
        print('HARNESS-ERROR property=%s cannot import' % prop)
        return 2

    if a.replay:
        try:
            with open(a.replay) as f:
                case = json.load(f)
            ok, detail = mod.replay(case)
        except Exception:
            traceback.print_exc()
            return 2
        print(json.dumps({'ok': ok, 'detail': detail}, default=repr, indent=1))
        if not ok:
            print('VIOLATION property=%s replay=%s' % (prop, a.replay))
            return 1
        return 0

    # --- known findings: replay witnesses, arm classes -------------------------------------------
    armed = []
    stale = []
    fixed_regressions = []
    try:
        for ent in load_findings():
            if prop not in ent.get('properties', []):
                continue
            wit = [w for w in ent.get('witnesses', []) if prop == w.get('check') or prop in w.get('checks', ())]
            def replay_w(w):
                if w.get('engine') == 'lang':
                    # a language-level witness (pattern AST, flags, name): the same defect surfaces in many checks
                    from . import lang
                    return lang.replay_case(w['case'])
                return mod.replay(w['case'])
            if ent.get('status') == 'fixed':
                for w in wit:
                    ok, detail = replay_w(w)
                    if not ok:
                        fixed_regressions.append((ent, w, detail))
                continue
            still = False
            for w in wit:
                ok, detail = replay_w(w)
                if not ok:
                    still = True
            if still or (not wit and ent.get('arm_without_witness')):
                armed.append(ent['id'])
                print('KNOWN-FINDING: property=%s %s %s' % (prop, ent['id'], ent['what']))
            else:
                stale.append(ent['id'])
    except Exception:
        traceback.print_exc()
        print('HARNESS-ERROR property=%s while replaying known findings' % prop)
        return 2

    total = Outcome()
    for ent, w, detail in fixed_regressions:
        case = dict(w['case'])
        case['_regression_of'] = ent['id']
        total.violation(case, 0)

    # --- shards ---------------------------------------------------------------------------------
    try:
        shards = mod.shards(a.tier, seed, a.scale)
        for d in shards:
            d['armed'] = armed
            d['tier'] = a.tier
            d['collect'] = a.collect
    except Exception:
        traceback.print_exc()
        return 2
    os.environ.setdefault('PYTHONHASHSEED', '0')
    jobs = [(modname, d) for d in shards]
    if a.jobs <= 1 or len(jobs) <= 1:
        results = map(_run_shard, jobs)
    else:
        ctx = multiprocessing.get_context('fork')
        pool = ctx.Pool(min(a.jobs, len(jobs)), maxtasksperchild=None)
        results = pool.imap_unordered(_run_shard, jobs, chunksize=1)
    try:
        for out in results:
            total.merge(out)
    finally:
        if a.jobs > 1 and len(jobs) > 1:
            pool.close()
            pool.join()

    if total.errors:
        for e in total.errors[:5]:
            sys.stderr.write(e + '\n')
        print('HARNESS-ERROR property=%s %d shard(s) failed' % (prop, len(total.errors)))
        return 2

    # --- violations -----------------------------------------------------------------------------
    rc = 0
    viol_paths = []
    if total.violations and not a.collect:
        seen = set()
        for _sz, _b, case in total.violations[:8]:
            try:
                if hasattr(mod, 'shrink'):
                    case = mod.shrink(case)
            except Exception:
                traceback.print_exc()
            key = json.dumps(case, sort_keys=True, default=repr)
            if key in seen:
                continue
            seen.add(key)
            path = write_replay(prop, case)
            viol_paths.append(path)
            print('VIOLATION property=%s replay=%s' % (prop, path))
            print('  case: ' + json.dumps(case, default=repr)[:1500])
        rc = 1
    if a.collect:
        for _sz, _b, case in total.violations:
            print('COLLECTED ' + json.dumps(case, default=repr)[:1500])

    # --- evidence -------------------------------------------------------------------------------
    wall = time.time() - t0
    nt = total.nt_count + len(total.nt_hashes)
    cov = {
        'evaluations': int(total.evaluations),
        'distinct_nontrivial': int(nt),
        'rule': getattr(mod, 'RULE', ''),
        'samples': total.samples[:12],
        'either_count': int(total.either),
        'known_finding_hits': dict(total.known),
        'known_finding_examples': total.known_examples,
        'armed_findings': armed,
        'stale_findings': stale,
        'generator_stats': dict(total.stats),
        'shards': len(shards),
        'notes': total.notes,
    }
    if total.exhaustive is not None:
        cov['exhaustive'] = bool(total.exhaustive)
    if hasattr(mod, 'coverage_extra'):
        try:
            cov.update(mod.coverage_extra(a.tier, total))
        except Exception:
            traceback.print_exc()
    ev = {
        'property_id': prop,
        'tier': a.tier,
        'seed': seed,
        'level': 'exploration',
        'coverage': cov,
        'assumptions': list(getattr(mod, 'ASSUMPTIONS', [])) + ['wcmatch imported from ' + wcfile,
                                                                 'python ' + sys.version.split()[0]],
        'wall_s': round(wall, 2),
        'violations': len(viol_paths),
        'violation_replays': viol_paths,
    }
    evdir = os.environ.get('VERIF_EVIDENCE_DIR') or os.path.join(VERIF_DIR, 'evidence')
    os.makedirs(evdir, exist_ok=True)
    with open(os.path.join(evdir, prop + '.json'), 'w') as f:
        json.dump(ev, f, indent=1, default=repr, sort_keys=True)
        f.write('\n')
    print('%s tier=%s seed=%d evaluations=%d nontrivial=%d either=%d known=%s wall=%.1fs rc=%d' % (
        prop, a.tier, seed, total.evaluations, nt, total.either, dict(total.known), wall, rc))
    if nt < 2 or total.evaluations < 1:
        print('HARNESS-ERROR property=%s vacuous run (evaluations=%d nontrivial=%d)' % (prop, total.evaluations, nt))
        return 2 if rc == 0 else rc
    return rc
