"""Class predicates for the known findings (DESIGN.md section 4).

A disagreement between wcmatch and an oracle is attributed to an *armed* finding only if the finding's predicate
holds for that case, including the direction of the disagreement.  Everything else is a violation.
"""
from . import ast as A
from . import ref as R

WILD = ('any', 'set', 'star')


class _Scan:
    __slots__ = ('unguarded', 'k2', 'dot_first_alt', 'neg_at_start', 'lead_star', 'lead_group')

    def __init__(self):
        self.lead_star = False       # a `*` stands syntactically first (it may match nothing and pass the dot on)
        self.lead_group = False      # a group stands syntactically first
        self.unguarded = False       # a wildcard without start-of-segment guard can stand on the first character
        self.k2 = False              # a repeatable group at a guarded position with a guard-bearing first token
        self.dot_first_alt = False   # some alternative of a group at segment start begins with a written dot
        self.neg_at_start = False


def _scan(seq, at_start, reach0, acc, star_passes, nodotdir, in_rep=False):
    """Mimic wcmatch's "after start" bookkeeping on the AST.

    at_start: the parser would emit start-of-segment guards for the next token.
    reach0:   the next token can still stand on the first character of the segment.
    star_passes: a guarded leading `*` lets the following token see the first character (path mode without DOTGLOB,
                 hidden but not special segment).
    """
    for node in seq:
        k = node[0]
        if k in ('any', 'set'):
            if at_start and in_rep:
                acc.k2 = True
            if reach0 and not at_start:
                acc.unguarded = True
            at_start = False
            reach0 = False
        elif k == 'star':
            if at_start and reach0:
                acc.lead_star = True
            if at_start and in_rep:
                acc.k2 = True
            if reach0 and not at_start:
                acc.unguarded = True
            if at_start and not star_passes:
                reach0 = False
            at_start = False
        elif k == 'lit':
            if at_start and node[1] == '.':
                if in_rep and nodotdir:
                    acc.k2 = True
            at_start = False
            reach0 = False
        else:
            kind, alts = node[1], node[2]
            if at_start and reach0:
                acc.lead_group = True
            if kind == '!':
                if at_start:
                    acc.neg_at_start = True
                    if in_rep:
                        acc.k2 = True
                elif reach0:
                    acc.unguarded = True
            rep = in_rep or (at_start and kind in '*+')
            for a in alts:
                if at_start and a[:1] == (('lit', '.'),):
                    acc.dot_first_alt = True
                _scan(a, at_start, reach0, acc, star_passes, nodotdir, rep)
            reach0 = reach0 and (kind in '?*' or kind == '!' or any(R.nullable(a) for a in alts) or True)
            at_start = False
    return acc


def k1_text(text, pathmode):
    """K1: a `*` that stands where the parser is "after start" (first in its name / segment, or first in an alternative of a
    group that stands there) swallows the stars that follow it - including the one that opens a `*(` group.  A `**(` anywhere
    else in a pattern is read correctly, so it is not in the class."""
    if isinstance(text, (list, tuple)):
        return any(k1_text(t, pathmode) for t in text)
    if isinstance(text, bytes):
        text = text.decode('latin-1')
    if not isinstance(text, str) or '*(' not in text:
        return False
    at_start = True
    stack = []
    i, n = 0, len(text)
    while i < n:
        c = text[i]
        if c == '\\':
            # an escaped separator starts a segment like a bare one
            at_start = bool(pathmode and text[i + 1:i + 2] == '/')
            i += 2
            continue
        if c in '?*+@!' and text[i + 1:i + 2] == '(':
            stack.append(at_start)
            i += 2
            continue
        if c == '*':
            if at_start:
                # a leading star: the stars after it are swallowed - if the last of them was meant to open a group, that is K1
                j = i
                while j < n and text[j] == '*':
                    j += 1
                if j - i >= 2 and text[j:j + 1] == '(':
                    return True
                i = j
                at_start = False
                continue
            at_start = False
            i += 1
            continue
        if c == '|' and stack:
            at_start = stack[-1]
            i += 1
            continue
        if c == ')' and stack:
            stack.pop()
            at_start = False
            i += 1
            continue
        if c == '/' and pathmode:
            at_start = True
            i += 1
            continue
        if c == '[':
            j = text.find(']', i + 2)
            i = (j + 1) if j > 0 else i + 1
            at_start = False
            continue
        at_start = False
        i += 1
    return False


def scan_segment(seq, star_passes=False, nodotdir=False):
    return _scan(seq, True, True, _Scan(), star_passes, nodotdir)


def seg_classes(seq, seg, dot, pathmode, nodotdir, impl_accepts, verdict, text=None):
    """Known-finding ids whose predicate holds for (segment pattern, segment/name, direction)."""
    out = set()
    special = pathmode and seg in ('.', '..')
    hidden = seg[:1] == '.'
    if text is not None and k1_text(text, pathmode):
        out.add('K1')
    if impl_accepts and verdict == R.MUSTNOT and (special or (hidden and not dot)):
        acc = scan_segment(seq, star_passes=False, nodotdir=nodotdir)
        if acc.unguarded:
            out.add('K3')
        elif pathmode and not dot and not special:
            acc = scan_segment(seq, star_passes=True, nodotdir=nodotdir)
            if acc.unguarded:
                out.add('K4')   # K4 alone or composed with K3
        if special and nodotdir and A.has_ext(seq):
            out.add('K8')
        if special and dot and not nodotdir and A.has_ext(seq, '!') and acc.dot_first_alt:
            out.add('K20')
    if (not dot and '.' in seg[1:]) or (pathmode and len(seg) > 1 and seg.endswith('.')):
        acc = scan_segment(seq, nodotdir=nodotdir)
        if acc.k2:
            if (not impl_accepts and verdict == R.MUST) or (A.has_ext(seq, '!') and impl_accepts and verdict == R.MUSTNOT):
                out.add('K2')
    return out


def path_classes(pp, path, flags, impl_accepts, verdict, text):
    """Known-finding ids for a path-mode disagreement: any (pattern segment, path segment) pair may trigger."""
    out = set()
    dot = flags.get('dot', False)
    nodotdir = flags.get('nodotdir', False)
    _ab, psegs, ptrail = R.split_path(path)
    if k1_text(text, True):
        out.add('K1')
    for s in pp.segs:
        if s in (A.GS, A.GSL):
            continue
        for seg in set(psegs):
            out |= seg_classes(s, seg, dot, True, nodotdir, impl_accepts, verdict)
    k5 = (flags.get('matchbase') and all(isinstance(s_, str) for s_ in pp.segs) and not pp.trail) or \
        (flags.get('extmatchbase') and pp.segs[0] in (A.GS, A.GSL))
    if k5 and not pp.absolute:
        if impl_accepts and verdict == R.MUSTNOT and any(s[:1] == '.' for s in (psegs if _ab else psegs[1:])):
            out.add('K5')
    if path.endswith('\n'):
        # K33: `$` inside the translated regex (the divider next to a globstar, the `.`/`..` look-ahead) also matches before a
        # final newline
        gs = (flags.get('globstar') or flags.get('globstarlong')) and any(isinstance(s_, str) for s_ in pp.segs)
        if impl_accepts and verdict == R.MUSTNOT and (gs or flags.get('matchbase') or flags.get('extmatchbase')):
            out.add('K33')
        if path[:-1].endswith('.') and ((not impl_accepts and verdict == R.MUST) or
                                        (impl_accepts and verdict == R.MUSTNOT and any(A.has_ext(s_, '!') for s_ in pp.segs if not isinstance(s_, str)))):
            # (inside a negation the wrongly failing inner match turns into a wrong acceptance: `!(*|.)` vs '.\n')
            out.add('K33')
    return out


def bash_either_classes(pp, path, dot):
    """Bash arbitrates the EITHER zone of hidden names: when wcmatch accepts a hidden segment that the lenient model
    allows but the strict one does not (a `*` or a group was passed at zero width before the written dot), the root cause
    is K4 (leading `*` whose dot guard sits inside its optional group) or K3 (state reset after a group)."""
    out = set()
    if dot:
        return out
    _ab, psegs, _tr = R.split_path(path)
    hidden = [s for s in psegs if s[:1] == '.' and s not in ('.', '..')]
    if not hidden:
        return out
    for s in pp.segs:
        if isinstance(s, str):
            continue
        for seg in hidden:
            if R.Matcher(seg, 'lenient').full(R.relax_neg(s)) and not R.Matcher(seg, 'strict').full(s):
                acc = scan_segment(s, star_passes=True)
                if acc.lead_star:
                    out.add('K4')
                if acc.lead_group:
                    out.add('K3')
    return out
