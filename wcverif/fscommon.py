"""Shared pieces of the file-system level checks (C04, C05, C06, C12, C13, C14, C16): strategies and helpers."""
import os
import shutil
import tempfile
import contextlib

from . import ast as A, ref as R, trees as T, util, lang
from .util import G

TREE_NAMES = ['a', 'b', 'A', 'ab', 'a.b', '.h', '.hd', 'x1', 'd', 'e', 'ld', 'lf', 'link', 'real', 'sub', 'p', 'q', 'x', 'Dir', 'abc', 'Abc',
              'dang', 'up', '.', '..', 'f', 'lh', '.d', '.a', '[a]', 'a*']


def st_segment(extra_names=(), only_names=None):
    """A path segment: literal names that exist in the trees, small wildcard ASTs, extended groups over names."""
    from hypothesis import strategies as st
    name = st.sampled_from(list(only_names) if only_names else TREE_NAMES + list(extra_names))
    litseg = name.map(A.lits)
    small = st.sampled_from([
        (A.STAR,), (A.ANY,), (A.lit('.'), A.STAR), (A.STAR, A.lit('.'), A.STAR), (A.lit('a'), A.STAR), (A.STAR, A.lit('a')),
        (A.ANY, A.ANY), (A.mkset(False, ('c', 'a'), ('c', 'b'), ('c', 'd')),), (A.mkset(True, ('c', 'a')),), (A.mkset(False, ('r', 'a', 'e')), A.STAR),
        (A.STAR, A.ANY), (A.lit('.'), A.ANY), (A.mkset(False, ('c', '.'), ('c', 'a')), A.STAR), (A.lit('x'), A.mkset(False, ('p', 'digit'))),
        (A.lit('l'), A.STAR), (A.STAR, A.lit('d')), (A.lit('A'), A.STAR), (A.ANY, A.lit('b'), A.STAR),
    ])
    alt = st.one_of(litseg, litseg, small, small, small, st.just(()))
    solid = st.one_of(litseg, small)
    # a group standing alone is mostly of a kind that cannot match the empty string (nullable segments are an
    # undecided zone for several checks); groups followed by something use every kind
    grp = st.tuples(st.sampled_from('+@!+@!?*'), st.lists(solid, min_size=1, max_size=3)).map(lambda t: (('ext', t[0], tuple(t[1])),))
    grp_any = st.tuples(st.sampled_from('?*+@!'), st.lists(alt, min_size=1, max_size=3)).map(lambda t: (('ext', t[0], tuple(t[1])),))
    grp2 = st.tuples(grp_any, st.one_of(small, litseg)).map(lambda t: A.merge_stars(t[0] + t[1]))
    grp3 = st.tuples(st.one_of(small, litseg), grp_any).map(lambda t: A.merge_stars(t[0] + t[1]))
    return st.one_of(litseg, litseg, small, small, grp, grp2, grp3)


def st_pathpat(max_segs=4, globstar=True, globstarlong=True, trail=True, names=None):
    from hypothesis import strategies as st
    seg = st_segment(only_names=names)
    kinds = [seg, seg, seg, seg]
    if globstar:
        kinds.append(st.just(A.GS))
    if globstarlong:
        kinds.append(st.just(A.GSL))
    return st.tuples(st.lists(st.one_of(*kinds), min_size=1, max_size=max_segs), st.booleans() if trail else st.just(False),
                     st.sampled_from([1, 1, 1, 2])).map(lambda t: A.PathPat(False, tuple(s for s in t[0] if s) or ((A.STAR,),), t[1], t[2]))


def st_case(max_segs=4, globstar=True, globstarlong=True, trail=True, allow_cycles=True, catalogue=None):
    """(tree spec, PathPat) with the pattern's literal names drawn mostly from the tree itself."""
    from hypothesis import strategies as st

    def pats(spec):
        names = sorted({os.path.basename(e[1]) for e in spec} | {'.', '..', 'zz'})
        return st.tuples(st.just(spec), st_pathpat(max_segs, globstar, globstarlong, trail, names=names))
    trees = st_treespec(allow_cycles) if catalogue is None else st.sampled_from(catalogue)
    return trees.flatmap(pats)


def st_treespec(allow_cycles=True):
    from hypothesis import strategies as st
    return st.one_of(st.sampled_from(T.CATALOGUE), st.sampled_from(T.CATALOGUE), T.st_tree(allow_cycles))


@contextlib.contextmanager
def built_tree(spec, follow_safe=False):
    """Materialise a spec under <tmp>/s1/s2/s3/s4/t: five extra levels, so that the `..` segments of a generated pattern
    (at most four) and of generated links never leave the sandbox directory.  Yields (root, removed_links)."""
    top = tempfile.mkdtemp(prefix='wcverif-')
    root = os.path.join(top, 's1', 's2', 's3', 's4', 't')
    try:
        os.makedirs(root)
        try:
            util.build_tree(root, spec)
        except OSError:
            pass       # e.g. a generated entry below a file: keep what could be built
        removed = T.make_follow_safe(root) if follow_safe else 0
        yield root, removed
    finally:
        shutil.rmtree(top, ignore_errors=True)


GL_CFG_KEYS = ['globstar', 'globstarlong', 'follow', 'dot', 'matchbase', 'nodir', 'mark', 'scandotdir', 'nodotdir', 'icase']


def cfg_flags(cfg):
    """glob flag value for a cfg dict (EXTGLOB always on)."""
    fl = G.EXTGLOB
    table = {'globstar': G.GLOBSTAR, 'globstarlong': G.GLOBSTARLONG, 'follow': G.FOLLOW, 'dot': G.DOTGLOB, 'matchbase': G.MATCHBASE,
             'nodir': G.NODIR, 'mark': G.MARK, 'scandotdir': G.SCANDOTDIR, 'nodotdir': G.NODOTDIR, 'icase': G.IGNORECASE,
             'nounique': G.NOUNIQUE, 'negate': G.NEGATE, 'negateall': G.NEGATEALL, 'brace': G.BRACE, 'split': G.SPLIT, 'case': G.CASE}
    for k, bit in table.items():
        if cfg.get(k):
            fl |= bit
    return fl


def follows_links(cfg):
    """Does `**` (or the implicit prefix) traverse symlinked directories under this configuration?"""
    return bool(cfg.get('follow') or cfg.get('globstarlong'))


def st_cfg(keys):
    from hypothesis import strategies as st
    return st.lists(st.sampled_from(keys), max_size=4, unique=True).map(lambda ks: {k: True for k in sorted(ks)})


def walker_opts(cfg, **extra):
    from .walker import Opts
    d = dict(cfg)
    d.update(extra)
    d['icase'] = bool(cfg.get('icase')) and not cfg.get('case')
    return Opts(**d)


def ref_kwargs(cfg):
    return dict(dot=bool(cfg.get('dot')), globstar=bool(cfg.get('globstar')), globstarlong=bool(cfg.get('globstarlong')),
                matchbase=bool(cfg.get('matchbase')), nodotdir=bool(cfg.get('nodotdir')) or not cfg.get('scandotdir'),
                nodir=bool(cfg.get('nodir')), icase=bool(cfg.get('icase')) and not cfg.get('case'))


def literal_variants(entry_paths):
    """Systematic patterns for a list of entry paths: the path itself, each segment case-swapped, replaced by `*`, by `**`,
    or by first-letter + `*`.  Yields tuples of segments (Seq | 'GS')."""
    seen = set()
    for p in entry_paths:
        parts = p.split('/')
        variants = [tuple(A.lits(x) for x in parts)]
        for i in range(len(parts)):
            sw = list(parts)
            sw[i] = sw[i].swapcase()
            variants.append(tuple(A.lits(x) for x in sw))
            st_ = [A.lits(x) for x in parts]
            st_[i] = (A.STAR,)
            variants.append(tuple(st_))
            gs = [A.lits(x) for x in parts]
            gs[i] = A.GS
            variants.append(tuple(gs))
            q = [A.lits(x) for x in parts]
            q[i] = (A.lit(parts[i][0]), A.STAR) if parts[i][0] != '.' else (A.lit('.'), A.STAR)
            variants.append(tuple(q))
        for v in variants:
            if v not in seen:
                seen.add(v)
                yield v
