#!/venv/bin/python
"""atheris target for C10 (and the translate-vs-match differential of C08).

Input bytes: [flag byte 1][flag byte 2][pattern utf-8...].  The oracle is inside the target: documented exception
types only, every translate() regex compiles, and translate()/match agreement on three derived names.  A failure does
not abort the campaign: it is written (once per exception bucket and entry point) to $WCVERIF_FUZZ_REPORT.
"""
import os
import sys
import json

HERE = os.path.dirname(os.path.dirname(os.path.abspath(__file__)))
sys.path.insert(0, HERE)
sys.path.append(os.path.join(HERE, '.deps'))
import atheris  # noqa: E402

from wcverif import bootstrap, REPO  # noqa: E402
sys.path.insert(0, REPO)
with atheris.instrument_imports(include=['wcmatch']):
    bootstrap()
    import wcmatch._wcparse  # noqa: F401
    import wcmatch.fnmatch  # noqa: F401
    import wcmatch.glob  # noqa: F401

from wcverif.checks import c10, c08  # noqa: E402
from wcverif import util  # noqa: E402
from wcverif.runner import h64  # noqa: E402

REPORT = os.environ.get('WCVERIF_FUZZ_REPORT', '/dev/null')
FN_BITS = ['EXTMATCH', 'DOTMATCH', 'NEGATE', 'SPLIT', 'BRACE', 'RAWCHARS', 'IGNORECASE', 'FORCEWIN']
GL_BITS = ['GLOBSTAR', 'MATCHBASE', 'NODOTDIR', 'GLOBSTARLONG', 'NODIR', 'MINUSNEGATE', 'NEGATEALL', 'GLOBTILDE']
seen = set()
nt = set()
count = [0]


def flush_stats():
    with open(REPORT + '.stats', 'w') as f:
        json.dump({'kind': 'stats', 'nontrivial': len(nt), 'nt_hashes': sorted(nt)[:200000], 'execs': count[0]}, f)


def one(data):
    count[0] += 1
    if len(data) < 3:
        return
    b1, b2 = data[0], data[1]
    try:
        p = data[2:].decode('utf-8')
    except UnicodeDecodeError:
        p = data[2:].decode('latin-1')
    fn_names = [n for i, n in enumerate(FN_BITS) if b1 >> i & 1]
    gl_names = fn_names + [n for i, n in enumerate(GL_BITS) if b2 >> i & 1]
    util.clear_caches()
    problems = c10.probe_core(p, fn_names, gl_names)
    problems += c08.differential(p, fn_names, gl_names)
    if c10.nontrivial(p):
        nt.add(h64(p))
    for pr in problems:
        key = (pr['entry'], tuple(pr['bucket'][:2]))
        if key in seen:
            continue
        seen.add(key)
        pr['hex'] = pr['pattern'].encode('utf-8', 'surrogatepass').hex()
        with open(REPORT, 'a') as f:
            f.write(json.dumps(pr) + '\n')
    if count[0] % 2000 == 0:
        flush_stats()


if __name__ == '__main__':
    atheris.Setup(sys.argv, one)
    atheris.Fuzz()
